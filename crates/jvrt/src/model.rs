//! Reference interpreter of the documented step semantics for grid programs.
//!
//! It encodes only documented behaviour: operators mean their method calls; steps split
//! at `~`; block captures of a step run before the step's expressions in branch-then-position
//! order; a branch continues from its own previous value; `try` macros stop at the end of
//! the first step in which an active branch is None/Err, returning the lowest-numbered
//! failing branch's value (sync / thread-spawning) or some failing branch's value (async);
//! final transposition; handler rules; in async macros operators apply to the future of the
//! previous value. Cross-branch order inside a step is NOT modelled.

use crate::log::{tag, K};
use crate::plan::Plan;
use crate::prog::*;
use crate::sem::*;
use std::collections::HashMap;

#[derive(Clone, Debug, PartialEq, Eq, Hash)]
pub struct ExpEv {
    pub id: u32,
    pub k: K,
    pub tag: u8,
    pub h: u64,
}

impl ExpEv {
    pub fn short(&self) -> String {
        format!("{}#{}[{}:{:x}]", self.k.name(), self.id, self.tag, self.h & 0xffff)
    }
}

#[derive(Clone, Debug, Default)]
pub struct BranchStep {
    /// ordered callback invocations (K::Call / K::Thunk) of this branch in this step
    pub calls: Vec<ExpEv>,
    /// operand / initial-value evaluations outside captures (their relative order is not asserted)
    pub ops: Vec<ExpEv>,
    /// value after the step
    pub val: Option<Val>,
    /// gate ids in the order this branch reaches them
    pub gates: Vec<u32>,
}

#[derive(Clone, Debug, Default)]
pub struct StepExp {
    /// ordered capture-phase events of the step: Cap, Snap*, Op|Init per captured operand,
    /// in branch-then-position order
    pub caps: Vec<ExpEv>,
    /// per branch (None when the branch is not active in this step)
    pub branches: Vec<Option<BranchStep>>,
}

#[derive(Clone, Debug)]
pub struct Expect {
    /// steps that are executed under the plan (all of them unless a try macro aborts)
    pub steps: Vec<StepExp>,
    /// step at which a try macro fails (branches failing in it listed in `failing`)
    pub fail_step: Option<usize>,
    pub failing: Vec<usize>,
    /// acceptable outcomes (exactly one unless an async try macro fails in a step where
    /// several branches fail)
    pub outcomes: Vec<Out>,
    /// handler expression evaluated / handler call expected
    pub hexpr: Option<ExpEv>,
    pub hcall: Option<ExpEv>,
    /// the handler's future runs (async then / and_then)
    pub hthunk: Option<ExpEv>,
    /// id -> (branch, step); handler ids map to (usize::MAX, max_steps)
    pub loc: HashMap<u32, (usize, usize)>,
    /// final per-branch values
    pub finals: Vec<Val>,
}

struct Cx<'a> {
    plan: &'a Plan,
    flavor: Flavor,
    is_async: bool,
}

#[derive(Clone, Copy, Debug)]
enum V {
    W(Val),
    T(u64),
    Unit,
    Bool(bool),
}

#[derive(Default)]
struct Acc {
    cons: Vec<ExpEv>,
    poll: Vec<ExpEv>,
    ops: Vec<ExpEv>,
    gates: Vec<u32>,
}

impl Acc {
    fn call(&mut self, phase_poll: bool, id: u32, k: K, t: u8, h: u64) {
        let e = ExpEv { id, k, tag: t, h };
        if phase_poll {
            self.poll.push(e)
        } else {
            self.cons.push(e)
        }
    }
    fn finish(self) -> (Vec<ExpEv>, Vec<ExpEv>, Vec<u32>) {
        let mut c = self.cons;
        c.extend(self.poll);
        (c, self.ops, self.gates)
    }
}

/// Does evaluating this action's operand expression produce an `Op` event?
/// (wrappers have no operand, inline closures are silent, method-style operands carry
/// their id as a literal; the async Dot is `..then(fd(ID))` and does construct a callback)
pub fn op_event(a: &Act, asy: bool) -> bool {
    if a.wrap.is_some() || a.form != 0 {
        return false;
    }
    match a.op {
        Op::TokDot | Op::Look | Op::Check => false,
        Op::Dot => asy,
        _ => true,
    }
}

/// Is the body of wrapper `op` an async scope, given the scope the wrapper stands in?
pub fn body_async(op: Op, asy: bool) -> bool {
    asy && matches!(op, Op::AndThen | Op::OrElse)
}

/// Visits every action with the scope (async or sync operator semantics) it stands in.
pub fn visit<'p>(acts: &'p [Act], asy: bool, f: &mut dyn FnMut(&'p Act, bool)) {
    for a in acts {
        f(a, asy);
        if let Some(inner) = &a.wrap {
            visit(inner, body_async(a.op, asy), f);
        }
    }
}

impl<'a> Cx<'a> {
    fn bad(&self, id: u32) -> bool {
        self.plan.is_bad(id)
    }

    /// Evaluates a list of actions over `cur`. `asy` says whether `cur` is a future of W
    /// (async operator semantics) or a plain value (sync semantics).
    fn eval(&self, acts: &[Act], mut cur: V, asy: bool, acc: &mut Acc) -> V {
        // In an async scope the chain is first *constructed* (operand expressions evaluated,
        // `->` callbacks invoked with the future) and then polled.
        for a in acts {
            let id = a.id;
            if a.cap.is_none() && op_event(a, asy) {
                acc.ops.push(ExpEv { id, k: K::Op, tag: tag::NONE, h: 0 });
            }
            if let Some(inner) = &a.wrap {
                cur = self.eval_wrapper(a, inner, cur, asy, acc);
                continue;
            }
            cur = match (a.op, cur) {
                // ---- operators on a bare token (always immediate)
                (Op::TokThen, V::T(h)) | (Op::TokDot, V::T(h)) => {
                    acc.call(false, id, K::Call, tag::TOK, h);
                    V::T(mixf(h, id))
                }
                (Op::TokConv, V::T(h)) => {
                    acc.call(false, id, K::Call, tag::TOK, h);
                    if asy {
                        acc.gates.push(id);
                    }
                    V::W(conv_sem(self.flavor, h, id, self.bad(id)))
                }
                (Op::Look, V::W(w)) => {
                    let (t, h) = w.tag();
                    acc.call(asy, id, K::Call, t, h);
                    V::Unit
                }
                (Op::Check, V::T(h)) => {
                    acc.call(false, id, K::Call, tag::TOK, h);
                    V::Bool(!self.bad(id))
                }
                // ---- operators on W / future of W
                (Op::Map, V::W(w)) => {
                    if asy {
                        let (t, h) = w.tag();
                        acc.call(true, id, K::Call, t, h);
                        V::W(then_sem(self.flavor, w, id, self.bad(id)))
                    } else {
                        match w {
                            Val::Ok(h) => {
                                acc.call(false, id, K::Call, tag::TOK, h);
                                V::W(Val::Ok(mixf(h, id)))
                            }
                            other => V::W(other),
                        }
                    }
                }
                (Op::AndThen, V::W(w)) => match w {
                    Val::Ok(h) => {
                        acc.call(asy, id, K::Call, tag::TOK, h);
                        if asy {
                            acc.gates.push(id);
                        }
                        V::W(conv_sem(self.flavor, h, id, self.bad(id)))
                    }
                    other => V::W(other),
                },
                (Op::Filter, V::W(w)) => match w {
                    Val::Ok(h) => {
                        acc.call(false, id, K::Call, tag::TOK, h);
                        if self.bad(id) {
                            V::W(Val::Nil)
                        } else {
                            V::W(Val::Ok(h))
                        }
                    }
                    other => V::W(other),
                },
                (Op::Or, V::W(w)) => {
                    let alt = init_sem(self.flavor, id, self.bad(id));
                    if w.is_ok() {
                        V::W(w)
                    } else {
                        V::W(alt)
                    }
                }
                (Op::OrElse, V::W(w)) => match (w, self.flavor) {
                    (Val::Err(e), _) => {
                        acc.call(asy, id, K::Call, tag::TOK, e);
                        if asy {
                            acc.gates.push(id);
                        }
                        V::W(conv_sem(self.flavor, e, id, self.bad(id)))
                    }
                    (Val::Nil, _) => {
                        acc.call(false, id, K::Call, tag::NONE, 0);
                        V::W(orelse_opt_sem(id, self.bad(id)))
                    }
                    (ok, _) => V::W(ok),
                },
                (Op::MapErr, V::W(w)) => match w {
                    Val::Err(e) => {
                        acc.call(asy, id, K::Call, tag::TOK, e);
                        V::W(Val::Err(mixf(e, id)))
                    }
                    other => V::W(other),
                },
                (Op::Inspect, V::W(w)) => {
                    let (t, h) = w.tag();
                    acc.call(asy, id, K::Call, t, h);
                    V::W(w)
                }
                (Op::Then, V::W(w)) => {
                    let (t, h) = w.tag();
                    if asy {
                        // invoked with the future while the chain is built, value seen when polled
                        acc.call(false, id, K::Call, tag::OTHER, 0);
                        acc.call(true, id, K::Thunk, t, h);
                        acc.gates.push(id);
                    } else {
                        acc.call(false, id, K::Call, t, h);
                    }
                    V::W(then_sem(self.flavor, w, id, self.bad(id)))
                }
                (Op::Dot, V::W(w)) => {
                    let (t, h) = w.tag();
                    acc.call(asy, id, K::Call, t, h);
                    if asy {
                        acc.gates.push(id);
                    }
                    V::W(then_sem(self.flavor, w, id, self.bad(id)))
                }
                (op, v) => panic!("model: ill-typed program: {:?} on {:?}", op, v),
            };
        }
        cur
    }

    fn eval_wrapper(&self, a: &Act, inner: &[Act], cur: V, asy: bool, acc: &mut Acc) -> V {
        let w = match cur {
            V::W(w) => w,
            v => panic!("model: wrapper on {:?}", v),
        };
        // the body is evaluated when the wrapper's closure is invoked; for an async scope that
        // is during polling, and the body forms its own construct-then-poll scope
        let mut run = |arg: V, body_async: bool, acc: &mut Acc| -> V {
            let mut sub = Acc::default();
            let r = self.eval(inner, arg, body_async, &mut sub);
            let (calls, ops, gates) = sub.finish();
            if asy {
                acc.poll.extend(calls);
            } else {
                acc.cons.extend(calls);
            }
            acc.ops.extend(ops);
            acc.gates.extend(gates);
            r
        };
        match (a.op, w) {
            (Op::Map, w) if asy => {
                // FutureExt::map(|w| w inner...): body sees a plain W, sync semantics
                match run(V::W(w), false, acc) {
                    V::W(r) => V::W(r),
                    v => panic!("model: async map wrapper body gave {:?}", v),
                }
            }
            (Op::Map, Val::Ok(h)) => match run(V::T(h), false, acc) {
                V::T(h2) => V::W(Val::Ok(h2)),
                v => panic!("model: map wrapper body gave {:?}", v),
            },
            (Op::AndThen, Val::Ok(h)) => match run(V::T(h), asy, acc) {
                V::W(r) => V::W(r),
                v => panic!("model: and_then wrapper body gave {:?}", v),
            },
            (Op::OrElse, Val::Err(e)) => match run(V::T(e), asy, acc) {
                V::W(r) => V::W(r),
                v => panic!("model: or_else wrapper body gave {:?}", v),
            },
            (Op::MapErr, Val::Err(e)) => match run(V::T(e), false, acc) {
                V::T(e2) => V::W(Val::Err(e2)),
                v => panic!("model: map_err wrapper body gave {:?}", v),
            },
            (Op::Inspect, w) => {
                run(V::W(w), false, acc);
                V::W(w)
            }
            (Op::Filter, Val::Ok(h)) => match run(V::T(h), false, acc) {
                V::Bool(true) => V::W(Val::Ok(h)),
                V::Bool(false) => V::W(Val::Nil),
                v => panic!("model: filter wrapper body gave {:?}", v),
            },
            (Op::Map, w) | (Op::AndThen, w) | (Op::OrElse, w) | (Op::MapErr, w) | (Op::Filter, w) => V::W(w),
            (op, _) => panic!("model: {:?} cannot be a wrapper", op),
        }
    }
}

fn collect_caps<'p>(acts: &'p [Act], asy: bool, out: &mut Vec<(&'p Act, bool)>) {
    visit(acts, asy, &mut |a, sc| {
        if a.cap.is_some() {
            out.push((a, sc));
        }
    });
}

pub fn all_acts<'p>(acts: &'p [Act], out: &mut Vec<&'p Act>) {
    for a in acts {
        out.push(a);
        if let Some(inner) = &a.wrap {
            all_acts(inner, out);
        }
    }
}

/// id -> (branch, step) for every id of the program (captures included)
pub fn locations(p: &Prog) -> HashMap<u32, (usize, usize)> {
    let mut m = HashMap::new();
    for (b, br) in p.branches.iter().enumerate() {
        m.insert(br.init.id, (b, 0));
        if let Some(c) = &br.init.cap {
            m.insert(c.id, (b, 0));
        }
        for (s, cell) in br.steps.iter().enumerate() {
            let mut v = Vec::new();
            all_acts(cell, &mut v);
            for a in v {
                m.insert(a.id, (b, s));
                if let Some(c) = &a.cap {
                    m.insert(c.id, (b, s));
                }
            }
        }
    }
    if let Some(h) = &p.handler {
        m.insert(h.id, (usize::MAX, p.max_steps()));
    }
    m
}

pub fn interpret(p: &Prog, plan: &Plan) -> Expect {
    let kind = p.kind();
    let cx = Cx { plan, flavor: p.flavor, is_async: kind.is_async };
    let n = p.branches.len();
    let max = p.max_steps();
    let mut vals: Vec<Val> = vec![Val::Nil; n];
    let mut steps: Vec<StepExp> = Vec::new();
    let mut fail_step = None;
    let mut failing = Vec::new();

    for s in 0..max {
        let mut se = StepExp { caps: Vec::new(), branches: vec![None; n] };
        // ---- capture phase, branch-then-position order
        for (b, br) in p.branches.iter().enumerate() {
            if br.steps.len() <= s {
                continue;
            }
            let mut capd: Vec<(&Act, bool)> = Vec::new();
            if s == 0 && br.init.cap.is_some() {
                capd.push((&br.init, cx.is_async));
            }
            collect_caps(&br.steps[s], cx.is_async, &mut capd);
            for (a, sc) in capd {
                let c = a.cap.as_ref().unwrap();
                se.caps.push(ExpEv { id: c.id, k: K::Cap, tag: tag::NONE, h: 0 });
                for &nb in &c.snaps {
                    // the named branch's most recent step result
                    let (t, h) = vals[nb].tag();
                    se.caps.push(ExpEv { id: c.id, k: K::Snap, tag: t, h });
                    // a `let mut` name is borrowed mutably and its payload is changed in place:
                    // the change must be what the branch continues with
                    if p.branches[nb].name.as_ref().map(|n| n.1).unwrap_or(false) {
                        vals[nb] = match vals[nb] {
                            Val::Ok(h) => Val::Ok(mixf(h, c.id)),
                            Val::Err(h) => Val::Err(mixf(h, c.id)),
                            Val::Nil => Val::Nil,
                        };
                    }
                }
                if std::ptr::eq(a, &br.init) {
                    se.caps.push(ExpEv { id: a.id, k: K::Init, tag: tag::NONE, h: 0 });
                } else if op_event(a, sc) {
                    se.caps.push(ExpEv { id: a.id, k: K::Op, tag: tag::NONE, h: 0 });
                }
            }
        }
        // ---- evaluation phase
        for (b, br) in p.branches.iter().enumerate() {
            if br.steps.len() <= s {
                continue;
            }
            let mut acc = Acc::default();
            let start = if s == 0 {
                if br.init.cap.is_none() {
                    acc.ops.push(ExpEv { id: br.init.id, k: K::Init, tag: tag::NONE, h: 0 });
                }
                if cx.is_async {
                    acc.gates.push(br.init.id);
                }
                init_sem(p.flavor, br.init.id, plan.is_bad(br.init.id))
            } else {
                vals[b]
            };
            let r = cx.eval(&br.steps[s], V::W(start), cx.is_async, &mut acc);
            let v = match r {
                V::W(v) => v,
                other => panic!("model: step ended with {:?}", other),
            };
            vals[b] = v;
            let (calls, ops, gates) = acc.finish();
            se.branches[b] = Some(BranchStep { calls, ops, val: Some(v), gates });
        }
        steps.push(se);
        // a tagging custom joiner changes the payload of every joined value (not thread handles,
        // which the spawn joiner passes through untouched)
        if p.opts.joiner.is_some() && !(kind.is_spawn && !kind.is_async) {
            let act = p.active(s);
            if act.len() > 1 {
                for (pos, &b) in act.iter().enumerate() {
                    let t = crate::joiners::JTAG_BASE + pos as u32;
                    vals[b] = match vals[b] {
                        Val::Ok(h) => Val::Ok(mixf(h, t)),
                        Val::Err(h) => Val::Err(mixf(h, t)),
                        Val::Nil => Val::Nil,
                    };
                }
            }
        }
        if kind.is_try {
            let f: Vec<usize> = p.active(s).into_iter().filter(|&b| !vals[b].is_ok()).collect();
            if !f.is_empty() {
                fail_step = Some(s);
                failing = f;
                break;
            }
        }
    }

    let loc = locations(p);
    let mut hexpr = None;
    let mut hcall = None;
    let mut hthunk = None;
    if let Some(h) = &p.handler {
        if h.block {
            hexpr = Some(ExpEv { id: h.id, k: K::HExpr, tag: tag::NONE, h: 0 });
        }
    }
    let outcomes: Vec<Out> = if let Some(_) = fail_step {
        let cands: Vec<Val> = if kind.is_async { failing.iter().map(|&b| vals[b]).collect() } else { vec![vals[failing[0]]] };
        let mut o: Vec<Out> = cands.into_iter().map(Out::One).collect();
        o.dedup();
        o
    } else {
        match &p.handler {
            None => {
                if kind.is_try {
                    vec![Out::Toks(vals.iter().map(|v| match v { Val::Ok(h) => *h, _ => unreachable!() }).collect())]
                } else {
                    vec![Out::Vals(vals.clone())]
                }
            }
            Some(h) => {
                let bad = plan.is_bad(h.id);
                match h.kind {
                    HKind::Map => {
                        let hs: Vec<u64> = vals.iter().map(|v| match v { Val::Ok(h) => *h, _ => unreachable!() }).collect();
                        let f = hfold(h.id, &hs);
                        hcall = Some(ExpEv { id: h.id, k: K::HCall, tag: tag::TOK, h: f });
                        vec![Out::One(Val::Ok(f))]
                    }
                    HKind::AndThen => {
                        let hs: Vec<u64> = vals.iter().map(|v| match v { Val::Ok(h) => *h, _ => unreachable!() }).collect();
                        let f = hfold(h.id, &hs);
                        hcall = Some(ExpEv { id: h.id, k: K::HCall, tag: tag::TOK, h: f });
                        if kind.is_async {
                            hthunk = Some(ExpEv { id: h.id, k: K::Thunk, tag: tag::TOK, h: f });
                        }
                        let v = if bad { match p.flavor { Flavor::Res => Val::Err(f), Flavor::Opt => Val::Nil } } else { Val::Ok(f) };
                        vec![Out::One(v)]
                    }
                    HKind::Then => {
                        let hs: Vec<u64> = vals.iter().map(|v| v.code()).collect();
                        let f = hfold(h.id, &hs);
                        hcall = Some(ExpEv { id: h.id, k: K::HCall, tag: tag::OTHER, h: f });
                        if kind.is_async {
                            hthunk = Some(ExpEv { id: h.id, k: K::Thunk, tag: tag::TOK, h: f });
                        }
                        let v = if bad { match p.flavor { Flavor::Res => Val::Err(f), Flavor::Opt => Val::Nil } } else { Val::Ok(f) };
                        vec![Out::One(v)]
                    }
                }
            }
        }
    };

    Expect { steps, fail_step, failing, outcomes, hexpr, hcall, hthunk, loc, finals: vals }
}

/// All ids whose plan entry changes a value (decision points), in program order.
pub fn decision_ids(p: &Prog) -> Vec<u32> {
    let mut out = Vec::new();
    let asy = p.kind().is_async;
    for br in &p.branches {
        out.push(br.init.id);
        for cell in &br.steps {
            visit(cell, asy, &mut |a, sc| {
                if a.wrap.is_some() {
                    return;
                }
                let decides = match a.op {
                    Op::AndThen | Op::Filter | Op::Or | Op::OrElse | Op::Then | Op::Dot | Op::TokConv | Op::Check => true,
                    Op::Map => sc,
                    _ => false,
                };
                if decides {
                    out.push(a.id);
                }
            });
        }
    }
    if let Some(h) = &p.handler {
        if h.kind != HKind::Map {
            out.push(h.id);
        }
    }
    out
}
