//! C07 (digests for cross-macro comparison) and C18 (panic injection) runners.

use crate::asyncx;
use crate::log::{self, Ev, K};
use crate::model::{self, ExpEv};
use crate::plan::{self, Plan};
use crate::prog::*;
use crate::runner::{plan_space, reset_all, run_plain, Case, CaseFn, CaseReport, Mode};
use serde_json::{json, Value};
use std::io::Read;
use std::process::{Command, Stdio};
use std::time::{Duration, Instant};

fn fnv(s: &str) -> u64 {
    s.bytes().fold(0xcbf29ce484222325u64, |a, b| (a ^ b as u64).wrapping_mul(0x100000001b3))
}

// ------------------------------------------------------------------------------- C07

/// For every plan: a digest of the result, and a digest of result + per-branch callback
/// sequences (+ thread-name signature for the thread-spawning macros). The orchestrator
/// compares the digests of the same program rendered under the macro names of one class.
pub fn run_case_c07(case: &Case, prog: &Prog, mode: &Mode) -> (CaseReport, Value) {
    let mut rep = CaseReport::new();
    let ids = model::decision_ids(prog);
    // same plans for every member of a group: seed depends on the program's ids only
    let seed = ids.iter().fold(mode.seed, |a, i| crate::tok::mixf(a, *i));
    let (plans, _) = plan_space(&ids, mode.budget, seed);
    let loc = model::locations(prog);
    let kind = prog.kind();
    let mut digests = Vec::new();
    for bad in plans {
        let plan = Plan { bad, panic_at: None, gates: vec![], deep: false };
        let rr = run_plain(case, &plan);
        rep.runs += 1;
        let out_s = match (&rr.outcome, &rr.panic_msg) {
            (Some(o), _) => o.to_json().to_string(),
            (None, p) => format!("panic:{:?}", p),
        };
        // per (branch, step) ordered callback invocations
        let mut seqs: Vec<String> = Vec::new();
        let nb = prog.branches.len();
        for b in 0..nb {
            for s in 0..prog.branches[b].steps.len() {
                let v: Vec<String> = rr
                    .events
                    .iter()
                    .filter(|e| matches!(e.k, K::Call | K::Thunk) && loc.get(&e.id) == Some(&(b, s)))
                    .map(|e| ExpEv { id: e.id, k: e.k, tag: e.tag, h: e.h }.short())
                    .collect();
                seqs.push(format!("b{}s{}:{}", b, s, v.join(",")));
            }
        }
        let hc: Vec<String> = rr.events.iter().filter(|e| matches!(e.k, K::HCall | K::HExpr)).map(|e| format!("{}#{}:{:x}", e.k.name(), e.id, e.h)).collect();
        // concurrency signature of the thread-spawning macros: which thread (by name suffix) ran
        // each callback, relative to the calling thread
        let mut sig = String::new();
        if kind.is_spawn && !kind.is_async {
            let caller = log::tid();
            let mut v: Vec<String> = rr
                .events
                .iter()
                .filter(|e| e.k == K::Call)
                .filter_map(|e| loc.get(&e.id).map(|l| (l, e)))
                .filter(|(l, _)| l.0 != usize::MAX)
                .map(|(l, e)| format!("b{}s{}:{}:{}", l.0, l.1, if e.tid == caller { "caller" } else { "other" }, e.tname.clone().unwrap_or_default()))
                .collect();
            v.sort();
            v.dedup();
            sig = v.join(";");
        }
        let full = format!("{}|{}|{}", out_s, seqs.join("|"), hc.join(","));
        digests.push(json!({"bad": plan.bad, "out": format!("{:x}", fnv(&out_s)), "full": format!("{:x}", fnv(&full)), "sig": format!("{:x}", fnv(&sig)),
                            "out_text": out_s.chars().take(160).collect::<String>(), "failed": rr.outcome.is_none() || out_s.contains("err") || out_s.contains("nil")}));
        let multi_step = (0..prog.max_steps()).any(|s| prog.active(s).len() > 1);
        if nb >= 2 && multi_step {
            rep.nontrivial += 1;
        }
    }
    // task-spawning signature: how many branches reach their first pending point within the
    // first poll of the macro's future, before the runtime gets to run spawned tasks
    let mut spawn_sig = Value::Null;
    let mut outside = Value::Null;
    if kind.is_async {
        spawn_sig = json!(asyncx::first_poll_arrivals(case, prog));
        if prog.branches.len() == 1 {
            outside = json!(asyncx::outside_runtime(case));
            rep.runs += 1;
            rep.class("single_branch_future_driven_outside_any_runtime");
        }
    }
    // try-async macros: a branch fails while every other branch of the step is still pending at its
    // first pending point. What the macro's future then does (the value it completes with, and how
    // many of the pending points had to be opened before it completed) is compared within the class
    let mut gated: Vec<Value> = Vec::new();
    if kind.is_async && kind.is_try && prog.branches.len() >= 2 {
        let stride = (ids.len() / 6).max(1);
        for f in ids.iter().step_by(stride).take(6) {
            let mut plan = Plan { bad: vec![*f], panic_at: None, gates: vec![], deep: false };
            let exp = model::interpret(prog, &plan);
            let Some(fs) = exp.fail_step else { continue };
            let mut gates = Vec::new();
            if let Some(se) = exp.steps.get(fs) {
                for (b, bs) in se.branches.iter().enumerate() {
                    if exp.failing.contains(&b) {
                        continue;
                    }
                    if let Some(g) = bs.as_ref().and_then(|bs| bs.gates.first()) {
                        gates.push(*g);
                    }
                }
            }
            if gates.is_empty() {
                continue;
            }
            plan.gates = gates.clone();
            let sch = asyncx::ASchedule { picks: vec![], knob: 0, gate_sel: 0 };
            let ar = asyncx::run_async(case, prog, &plan, &exp, &sch, asyncx::What::Panic);
            rep.runs += 1;
            rep.class("async_try_failure_while_siblings_pending");
            let out_s = match (&ar.outcome, &ar.panic_msg) {
                (Some(o), _) => o.to_json().to_string(),
                (None, p) => format!("no value:{:?}", p),
            };
            gated.push(json!({"bad": f, "gates": gates, "out": out_s.chars().take(160).collect::<String>(), "opened_before_completion": ar.arity.len()}));
        }
    }
    // stack headroom: the all-succeed plan once more, every callback using 256 KiB of stack, in a
    // child process (an overflow kills the process); plain and thread-spawning macros must agree
    let mut deep = Value::Null;
    if !kind.is_async {
        let plan = Plan { bad: vec![], panic_at: None, gates: vec![], deep: true };
        deep = match run_child(case.idx, &plan, Duration::from_secs(30)) {
            Ok(v) => json!(format!("completed panicked={}", v["panicked"])),
            Err(e) if e == "timeout" => json!("timeout"),
            Err(e) if e.starts_with("crashed") => json!("crashed"),
            Err(e) => {
                rep.class(&format!("child run without result (not judged): {}", e.chars().take(160).collect::<String>()));
                json!("timeout")
            }
        };
        rep.runs += 1;
    }
    // the name of the calling thread is the only input of the macros besides the branches: the all-succeed
    // plan once more on a thread whose name is long and not ASCII (nested thread-spawning macros produce
    // long names); plain and thread-spawning macros must agree on value and callbacks
    let mut named = Value::Null;
    if !kind.is_async {
        let plan = Plan { bad: vec![], panic_at: None, gates: vec![], deep: false };
        let name = "\u{43f}\u{43e}\u{442}\u{43e}\u{43a}-\u{e9}\u{e8}\u{20ac}-\u{4e3b}\u{7ebf}\u{7a0b}-".repeat(3) + "x";
        named = match run_child_named(case.idx, &plan, Duration::from_secs(30), 3000, Some(&name)) {
            Ok(v) => {
                let mut calls: Vec<String> = v["events"].as_array().map(|a| a.iter().filter(|e| e[1] == "call" || e[1] == "hcall").map(|e| e[0].to_string()).collect()).unwrap_or_default();
                calls.sort();
                json!(format!("completed panicked={} calls={:x}", v["panicked"], fnv(&calls.join(","))))
            }
            Err(e) if e == "timeout" => json!("timeout"),
            Err(e) if e.starts_with("crashed") => json!("crashed"),
            Err(e) => {
                rep.class(&format!("child run without result (not judged): {}", e.chars().take(160).collect::<String>()));
                json!("timeout")
            }
        };
        rep.runs += 1;
        rep.class("caller_thread_with_long_non_ascii_name");
    }
    if rep.samples.is_empty() && !digests.is_empty() {
        rep.samples.push(json!({"plans": digests.len(), "first": digests[0]}));
    }
    (rep, json!({"digests": digests, "spawn_sig": spawn_sig, "deep": deep, "gated": gated, "named": named, "outside": outside}))
}

// ------------------------------------------------------------------------------- C18

/// every (id, kind) at which a panic can be injected, from the model's expectation under the
/// all-succeed plan
pub fn panic_points(prog: &Prog) -> Vec<(u32, K)> {
    panic_points_under(prog, &Plan::all_good())
}

pub fn panic_points_under(prog: &Prog, plan: &Plan) -> Vec<(u32, K)> {
    let exp = model::interpret(prog, plan);
    let mut v: Vec<(u32, K)> = Vec::new();
    for se in &exp.steps {
        for e in &se.caps {
            if matches!(e.k, K::Cap | K::Op | K::Init) {
                v.push((e.id, e.k));
            }
        }
        for bs in se.branches.iter().flatten() {
            for e in bs.ops.iter().chain(bs.calls.iter()) {
                if matches!(e.k, K::Init | K::Op | K::Call) {
                    v.push((e.id, e.k));
                }
            }
        }
    }
    for e in [&exp.hexpr, &exp.hcall].into_iter().flatten() {
        v.push((e.id, e.k));
    }
    v.sort();
    v.dedup();
    v
}

/// child process: one evaluation with the injected panic, result on stdout
pub fn child_main(case: &Case, plan: &Plan) {
    reset_all();
    plan::set(plan.clone());
    crate::cb::ASYNC_MODE.store(false, std::sync::atomic::Ordering::SeqCst);
    let f = match &case.f {
        CaseFn::Sync(f) => *f,
        _ => panic!("child run of async case"),
    };
    let named = std::env::var("JV_CHILD_NAME").ok();
    let mut b = std::thread::Builder::new();
    if let Some(n) = named {
        b = b.name(n);
    }
    let (tx, rx) = std::sync::mpsc::channel();
    let _h = b
        .spawn(move || {
            let r = std::panic::catch_unwind(std::panic::AssertUnwindSafe(|| f()));
            let events = log::snapshot();
            let _ = tx.send((r.is_err(), r.err().map(|p| crate::runner::panic_message(&p)), events));
        })
        .unwrap();
    // sibling threads parked at the plan's gates are released only once the caller has got control
    // back; a caller that has not returned after JV_HOLD_MS while they are parked is reported as
    // blocked (and they are released so that the run can end)
    let hold_ms: u64 = std::env::var("JV_HOLD_MS").ok().and_then(|s| s.parse().ok()).unwrap_or(3000);
    let mut blocked = false;
    let res = if plan.gates.is_empty() {
        rx.recv().ok()
    } else {
        match rx.recv_timeout(Duration::from_millis(hold_ms)) {
            Ok(r) => {
                crate::sched::open_all();
                Some(r)
            }
            Err(_) => {
                blocked = true;
                crate::sched::open_all();
                rx.recv().ok()
            }
        }
    };
    let (panicked, msg, events) = res.expect("child worker");
    let evs: Vec<Value> = events.iter().map(|e| json!([e.id, e.k.name(), e.seq])).collect();
    println!("{}", json!({"child": true, "panicked": panicked, "msg": msg, "events": evs, "blocked": blocked}));
    use std::io::Write;
    let _ = std::io::stdout().flush();
    std::process::exit(0);
}

fn run_child(case_idx: usize, plan: &Plan, timeout: Duration) -> Result<Value, String> {
    run_child_hold(case_idx, plan, timeout, 3000)
}

fn run_child_hold(case_idx: usize, plan: &Plan, timeout: Duration, hold_ms: u64) -> Result<Value, String> {
    run_child_named(case_idx, plan, timeout, hold_ms, None)
}

fn run_child_named(case_idx: usize, plan: &Plan, timeout: Duration, hold_ms: u64, name: Option<&str>) -> Result<Value, String> {
    let exe = std::env::current_exe().map_err(|e| e.to_string())?;
    let mut cmd = Command::new(exe);
    if let Some(n) = name {
        cmd.env("JV_CHILD_NAME", n);
    }
    let mut child = cmd
        .env("JV_CHILD", "1")
        .env("JV_HOLD_MS", hold_ms.to_string())
        .env("JV_ONLY", case_idx.to_string())
        .env("JV_PLAN", plan.to_json().to_string())
        .stdout(Stdio::piped())
        .stderr(Stdio::null())
        .spawn()
        .map_err(|e| e.to_string())?;
    let mut so = child.stdout.take().unwrap();
    let t = std::thread::spawn(move || {
        let mut s = String::new();
        let _ = so.read_to_string(&mut s);
        s
    });
    let start = Instant::now();
    let status;
    loop {
        match child.try_wait() {
            Ok(Some(st)) => {
                status = st;
                break;
            }
            Ok(None) => {
                if start.elapsed() > timeout {
                    let _ = child.kill();
                    let _ = child.wait();
                    return Err("timeout".into());
                }
                std::thread::sleep(Duration::from_micros(300));
            }
            Err(e) => return Err(e.to_string()),
        }
    }
    let out = t.join().unwrap_or_default();
    for l in out.lines() {
        if let Ok(v) = serde_json::from_str::<Value>(l) {
            if v["child"] == true {
                return Ok(v);
            }
        }
    }
    // killed by a signal (stack overflow: SIGSEGV / SIGABRT) = the evaluation crashed; anything else that leaves
    // no result line is a problem of the harness or the machine, not a verdict
    use std::os::unix::process::ExitStatusExt;
    match status.signal() {
        Some(sig) => Err(format!("crashed: signal {}", sig)),
        None => Err(format!("infra: child produced no result (exit {:?}): {}", status.code(), out.chars().take(200).collect::<String>())),
    }
}

pub fn run_case_c18(case: &Case, prog: &Prog, mode: &Mode) -> CaseReport {
    let mut rep = CaseReport::new();
    let kind = prog.kind();
    let loc = model::locations(prog);
    let exp_good = model::interpret(prog, &Plan::all_good());
    // injection points: every evaluation under the all-succeed plan, then (not for the async try
    // macros, which drop the siblings of a failing branch half way) the evaluations under one plan
    // with a failing callback - handler and capture positions first
    let mut points: Vec<(Plan, u32, K)> = panic_points(prog).into_iter().map(|(id, k)| (Plan::all_good(), id, k)).collect();
    let n_good = points.len();
    if !(kind.is_async && kind.is_try) {
        let dec = model::decision_ids(prog);
        if !dec.is_empty() {
            let pick = dec[(crate::tok::mixf(mode.seed ^ 0x18, case.idx as u32) % dec.len() as u64) as usize];
            let mut bad = Plan::all_good();
            bad.bad = vec![pick];
            let mut extra = panic_points_under(prog, &bad);
            extra.sort_by_key(|(id, k)| (!matches!(k, K::HExpr | K::HCall | K::Cap), *id));
            points.extend(extra.into_iter().map(|(id, k)| (bad.clone(), id, k)));
        }
    }
    // the budget is shared: at most two thirds for the all-succeed plan when there are others
    let cap_good = if points.len() > n_good { (mode.budget * 2 / 3).max(1) } else { mode.budget };
    for (pi, (base, id, k)) in points.iter().enumerate() {
        if rep.runs as usize >= mode.budget {
            break;
        }
        if pi < n_good && pi >= cap_good {
            continue;
        }
        let exp_bad;
        let exp: &crate::model::Expect = if base.bad.is_empty() {
            &exp_good
        } else {
            exp_bad = model::interpret(prog, base);
            &exp_bad
        };
        let mut plan = base.clone();
        plan.panic_at = Some((*id, k.name().to_string()));
        let inj_step = loc.get(id).map(|l| l.1).unwrap_or(0);
        let multi = prog.active(inj_step.min(prog.max_steps().saturating_sub(1))).len() > 1;
        let mut vs: Vec<crate::oracle::Violation> = Vec::new();
        let events_short: Vec<Ev>;
        if kind.is_async {
            // deterministic executor: gates everywhere, a wake-up order derived from the position
            let mut p2 = plan.clone();
            p2.gates = asyncx::choose_gates(exp, (pi % 3) as u8);
            let sch = asyncx::ASchedule { picks: vec![pi % 3, (pi / 3) % 3, 0, pi % 2], knob: (mode.seed ^ pi as u64) | 1, gate_sel: (pi % 3) as u8 };
            let ar = asyncx::run_async(case, prog, &p2, exp, &sch, asyncx::What::Panic);
            rep.runs += 1;
            let happened = ar.events.iter().any(|e| e.id == *id && e.k == *k);
            if !happened {
                // the injection point was not reached under this order (e.g. try macro cut short): no claim
                rep.class("injection_not_reached");
                continue;
            }
            match (&ar.panic_msg, &ar.outcome) {
                (Some(_), _) => {}
                (None, Some(o)) => vs.push(crate::oracle::Violation { oracle: "panic", detail: format!("panic injected at {}#{} was swallowed: the future completed with {:?}", k.name(), id, o) }),
                (None, None) => vs.push(crate::oracle::Violation {
                    oracle: "panic",
                    detail: format!("panic injected at {}#{}: the future neither panicked nor completed: {:?}", k.name(), id, ar.violations.iter().map(|v| v.detail.clone()).collect::<Vec<_>>()),
                }),
            }
            for e in &ar.events {
                if let Some(l) = loc.get(&e.id) {
                    if l.0 != usize::MAX && l.1 > inj_step && !matches!(e.k, K::HExpr) {
                        vs.push(crate::oracle::Violation { oracle: "panic", detail: format!("event {} of step {} after a panic in step {}", e.short(), l.1, inj_step) });
                        break;
                    }
                }
            }
            plan = p2;
            events_short = ar.events;
        } else {
            // thread-spawning macros: the later siblings of the panicking branch stay parked in
            // their first callback of the step until the caller has got control back
            let mut held = false;
            if kind.is_spawn {
                if let Some(&(b, s)) = loc.get(id) {
                    if b != usize::MAX && matches!(k, K::Init | K::Op | K::Call) {
                        if let Some(se) = exp.steps.get(s) {
                            for (j, bs) in se.branches.iter().enumerate() {
                                if j > b {
                                    if let Some(c) = bs.as_ref().and_then(|bs| bs.calls.first()) {
                                        plan.gates.push(c.id);
                                    }
                                }
                            }
                        }
                        held = !plan.gates.is_empty();
                    }
                }
            }
            let mut r = run_child(case.idx, &plan, Duration::from_secs(40));
            rep.runs += 1;
            if held {
                rep.class("siblings_parked");
                if matches!(&r, Ok(v) if v["blocked"] == true) {
                    // confirm with a four times longer hold before calling it blocked
                    r = run_child_hold(case.idx, &plan, Duration::from_secs(60), 12000);
                    if let Ok(v) = &r {
                        if v["blocked"] == true {
                            vs.push(crate::oracle::Violation {
                                oracle: "panic",
                                detail: format!(
                                    "panic injected at {}#{}: the caller stayed blocked (3 s, then 12 s in a second run) while later sibling threads of the step were parked at {:?}; it returned only after they were released",
                                    k.name(),
                                    id,
                                    plan.gates
                                ),
                            });
                        }
                    }
                }
            }
            match r {
                Err(e) if e == "timeout" => {
                    rep.infra.push(format!("evaluation with a panic injected at {}#{} did not return within 40 s (inconclusive)", k.name(), id));
                    continue;
                }
                Err(e) => {
                    rep.infra.push(format!("child failed: {}", e));
                    continue;
                }
                Ok(v) => {
                    let evs = v["events"].as_array().cloned().unwrap_or_default();
                    let happened = evs.iter().any(|e| e[0].as_u64() == Some(*id as u64) && e[1].as_str() == Some(k.name()));
                    if !happened {
                        rep.class("injection_not_reached");
                        continue;
                    }
                    if v["panicked"] != true {
                        vs.push(crate::oracle::Violation { oracle: "panic", detail: format!("panic injected at {}#{} did not reach the caller (macro returned normally)", k.name(), id) });
                    }
                    for e in &evs {
                        let eid = e[0].as_u64().unwrap_or(0) as u32;
                        if let Some(l) = loc.get(&eid) {
                            if l.0 != usize::MAX && l.1 > inj_step && e[1].as_str() != Some("hexpr") {
                                vs.push(crate::oracle::Violation { oracle: "panic", detail: format!("event {}#{} of step {} after a panic in step {}", e[1], eid, l.1, inj_step) });
                                break;
                            }
                        }
                    }
                    events_short = vec![];
                }
            }
        }
        let nt = (kind.is_spawn && multi) || inj_step > 0;
        if nt {
            rep.nontrivial += 1;
            if rep.samples.is_empty() {
                rep.samples.push(json!({"panic_at": [id, k.name()], "step": inj_step, "multi_branch_step": multi}));
            }
        }
        rep.class(&format!("inject_{}", k.name()));
        if !base.bad.is_empty() {
            rep.class("inject_under_failing_plan");
        }
        if inj_step > 0 {
            rep.class("inject_step>0");
        }
        if !vs.is_empty() {
            rep.violation(&plan, json!({"panic_at": [id, k.name()]}), &vs, &events_short);
            break;
        }
    }
    rep
}
