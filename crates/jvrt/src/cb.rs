//! Runtime callbacks used by generated grid programs. Each callback logs what it is
//! asked to do and derives its result from the plan, so one compiled program can be run
//! under many failure / panic / gate placements.

use crate::log::{ev, tag, K};
use crate::plan;
use crate::prog::Flavor;
use crate::sem::Val;
use crate::tok::Tok;
use futures::future::BoxFuture;
use std::future::Future;

pub fn on_op(id: u32) {
    ev(id, K::Op, tag::NONE, 0);
    plan::maybe_panic(id, K::Op);
}

pub fn on_init(id: u32) {
    ev(id, K::Init, tag::NONE, 0);
    plan::maybe_panic(id, K::Init);
}

pub fn on_call(id: u32, t: u8, h: u64) {
    ev(id, K::Call, t, h);
    plan::maybe_panic(id, K::Call);
    if plan::is_deep() {
        std::hint::black_box(plan::burn(256 * 1024));
    }
    if plan::is_gate(id) && !ASYNC_MODE.load(std::sync::atomic::Ordering::Relaxed) {
        crate::sched::arrive_blocking(id);
    }
}

/// In async programs gating happens through `GateFut`, never by blocking.
pub static ASYNC_MODE: std::sync::atomic::AtomicBool = std::sync::atomic::AtomicBool::new(false);

/// First statement of every block capture.
pub fn cap(id: u32) {
    ev(id, K::Cap, tag::NONE, 0);
    plan::maybe_panic(id, K::Cap);
}

/// Snapshot of a `let` name inside a capture.
pub fn snap<W: Wv>(id: u32, v: &W) {
    let (t, h) = v.to_val().tag();
    ev(id, K::Snap, t, h);
}

/// Snapshot of a `let mut` name: borrows it mutably and changes the payload in place.
pub fn snapm<W: Wv>(id: u32, v: &mut W) {
    let (t, h) = v.to_val().tag();
    ev(id, K::Snap, t, h);
    v.touch(id);
}

/// Handler written as a block logs its own evaluation.
pub fn hexpr(id: u32) {
    ev(id, K::HExpr, tag::NONE, 0);
    plan::maybe_panic(id, K::HExpr);
}

pub trait Wv: Sized + Send + 'static {
    const FLAVOR: Flavor;
    fn good(t: Tok) -> Self;
    fn bad(t: Tok) -> Self;
    fn to_val(&self) -> Val;
    /// payload token if there is one
    fn take(self) -> Option<Tok>;
    /// mixes `id` into the payload in place
    fn touch(&mut self, id: u32);
}

impl Wv for Result<Tok, Tok> {
    const FLAVOR: Flavor = Flavor::Res;
    fn good(t: Tok) -> Self {
        Ok(t)
    }
    fn bad(t: Tok) -> Self {
        Err(t)
    }
    fn to_val(&self) -> Val {
        match self {
            Ok(t) => Val::Ok(t.h),
            Err(t) => Val::Err(t.h),
        }
    }
    fn take(self) -> Option<Tok> {
        match self {
            Ok(t) | Err(t) => Some(t),
        }
    }
    fn touch(&mut self, id: u32) {
        match self {
            Ok(t) | Err(t) => t.h = crate::tok::mixf(t.h, id),
        }
    }
}

impl Wv for Option<Tok> {
    const FLAVOR: Flavor = Flavor::Opt;
    fn good(t: Tok) -> Self {
        Some(t)
    }
    fn bad(_t: Tok) -> Self {
        None
    }
    fn to_val(&self) -> Val {
        match self {
            Some(t) => Val::Ok(t.h),
            None => Val::Nil,
        }
    }
    fn take(self) -> Option<Tok> {
        self
    }
    fn touch(&mut self, id: u32) {
        if let Some(t) = self {
            t.h = crate::tok::mixf(t.h, id);
        }
    }
}

fn mk<W: Wv>(t: Tok, id: u32) -> W {
    if plan::is_bad(id) {
        W::bad(t)
    } else {
        W::good(t)
    }
}

/// Dot-operator methods on W: `..step(ID)`, `..look(ID)`.
pub trait WExt: Sized {
    fn step(self, id: u32) -> Self;
    fn look(&self, id: u32);
}

impl<W: Wv> WExt for W {
    fn step(self, id: u32) -> Self {
        let (t, h) = self.to_val().tag();
        on_call(id, t, h);
        g::then_apply(self, id)
    }
    fn look(&self, id: u32) {
        let (t, h) = self.to_val().tag();
        on_call(id, t, h);
    }
}

/// Generic implementations; the flavour modules below pin the value type.
pub mod g {
    use super::*;

    pub fn then_apply<W: Wv>(w: W, id: u32) -> W {
        let t = match w.take() {
            Some(t) => t,
            None => Tok::new(id),
        };
        mk::<W>(t.mix(id), id)
    }

    pub fn init<W: Wv>(id: u32) -> W {
        on_init(id);
        mk::<W>(Tok::new(id), id)
    }
    pub fn alt<W: Wv>(id: u32) -> W {
        on_op(id);
        mk::<W>(Tok::new(id), id)
    }
    // ---- direct-call forms (used by inline closures): log the call only
    pub fn xm(id: u32, t: Tok) -> Tok {
        on_call(id, tag::TOK, t.h);
        t.mix(id)
    }
    pub fn xa<W: Wv>(id: u32, t: Tok) -> W {
        on_call(id, tag::TOK, t.h);
        mk::<W>(t.mix(id), id)
    }
    pub fn xf(id: u32, t: &Tok) -> bool {
        on_call(id, tag::TOK, t.h);
        !plan::is_bad(id)
    }
    pub fn xo_opt<W: Wv>(id: u32) -> W {
        on_call(id, tag::NONE, 0);
        mk::<W>(Tok::new(id), id)
    }
    pub fn xi<W: Wv>(id: u32, w: &W) {
        let (t, h) = w.to_val().tag();
        on_call(id, t, h);
    }
    pub fn xt<W: Wv>(id: u32, w: W) -> W {
        let (t, h) = w.to_val().tag();
        on_call(id, t, h);
        then_apply(w, id)
    }
    // ---- constructor forms: evaluating the operand expression is itself an event
    pub fn fm(id: u32) -> impl FnOnce(Tok) -> Tok + Send + 'static {
        on_op(id);
        move |t| xm(id, t)
    }
    pub fn fa<W: Wv>(id: u32) -> impl FnOnce(Tok) -> W + Send + 'static {
        on_op(id);
        move |t| xa::<W>(id, t)
    }
    pub fn ff(id: u32) -> impl FnOnce(&Tok) -> bool + Send + 'static {
        on_op(id);
        move |t: &Tok| xf(id, t)
    }
    pub fn fo_opt<W: Wv>(id: u32) -> impl FnOnce() -> W + Send + 'static {
        on_op(id);
        move || xo_opt::<W>(id)
    }
    pub fn fi<W: Wv>(id: u32) -> impl Fn(&W) + Send + 'static {
        on_op(id);
        move |w: &W| xi::<W>(id, w)
    }
    pub fn ft<W: Wv>(id: u32) -> impl FnOnce(W) -> W + Send + 'static {
        on_op(id);
        move |w| xt::<W>(id, w)
    }
}

macro_rules! common_sync {
    () => {
        pub use super::{cap, hexpr, snap, snapm, WExt};
        pub use crate::tok::Tok;
        pub fn init(id: u32) -> W {
            super::g::init::<W>(id)
        }
        pub fn alt(id: u32) -> W {
            super::g::alt::<W>(id)
        }
        pub fn xm(id: u32, t: Tok) -> Tok {
            super::g::xm(id, t)
        }
        pub fn xa(id: u32, t: Tok) -> W {
            super::g::xa::<W>(id, t)
        }
        /// inline form of `-> tt(ID)`
        pub fn xtt(id: u32, t: Tok) -> Tok {
            super::g::xm(id, t)
        }
        pub fn xi(id: u32, w: &W) {
            super::g::xi::<W>(id, w)
        }
        pub fn xt(id: u32, w: W) -> W {
            super::g::xt::<W>(id, w)
        }
        pub fn fm(id: u32) -> impl FnOnce(Tok) -> Tok + Send + 'static {
            super::g::fm(id)
        }
        pub fn fa(id: u32) -> impl FnOnce(Tok) -> W + Send + 'static {
            super::g::fa::<W>(id)
        }
        pub fn fi(id: u32) -> impl Fn(&W) + Send + 'static {
            super::g::fi::<W>(id)
        }
        pub fn ft(id: u32) -> impl FnOnce(W) -> W + Send + 'static {
            super::g::ft::<W>(id)
        }
        /// `-> defer` at the end of a step: with `lazy_branches(false)` a thread-spawning macro hands the
        /// branch expression itself to the thread, so the expression has to be the closure
        pub fn defer(w: W) -> impl FnOnce() -> W + Send + 'static {
            move || w
        }
        /// `-> tt(ID)` on a bare token inside a wrapper
        pub fn tt(id: u32) -> impl FnOnce(Tok) -> Tok + Send + 'static {
            super::g::fm(id)
        }
        /// `-> tw(ID)`: token to W inside a wrapper
        pub fn tw(id: u32) -> impl FnOnce(Tok) -> W + Send + 'static {
            super::g::fa::<W>(id)
        }
        /// map handler: folds the unwrapped values
        pub fn h_map<const N: usize>(id: u32, a: [Tok; N]) -> Tok {
            // (no heap use: the allocation check runs handlers too)
            let mut hs = [0u64; N];
            for (i, t) in a.iter().enumerate() {
                hs[i] = t.h;
            }
            let h = crate::sem::hfold(id, &hs);
            crate::log::ev(id, crate::log::K::HCall, crate::log::tag::TOK, h);
            crate::plan::maybe_panic(id, crate::log::K::HCall);
            let mut it = a.into_iter();
            let mut first = it.next().expect("handler without arguments");
            first.h = h;
            first
        }
        pub fn h_and_then<const N: usize>(id: u32, a: [Tok; N]) -> W {
            let t = h_map(id, a);
            if crate::plan::is_bad(id) {
                <W as super::Wv>::bad(t)
            } else {
                <W as super::Wv>::good(t)
            }
        }
        pub fn h_then<const N: usize>(id: u32, a: [W; N]) -> W {
            use super::Wv;
            let mut hs = [0u64; N];
            for (i, w) in a.iter().enumerate() {
                hs[i] = w.to_val().code();
            }
            let h = crate::sem::hfold(id, &hs);
            crate::log::ev(id, crate::log::K::HCall, crate::log::tag::OTHER, h);
            crate::plan::maybe_panic(id, crate::log::K::HCall);
            drop(a);
            let t = Tok::raw(h);
            if crate::plan::is_bad(id) {
                <W as Wv>::bad(t)
            } else {
                <W as Wv>::good(t)
            }
        }
    };
}

/// `Result<Tok, Tok>` flavour
pub mod r {
    pub type W = Result<super::Tok, super::Tok>;
    common_sync!();
    pub fn xo(id: u32, t: Tok) -> W {
        super::g::xa::<W>(id, t)
    }
    pub fn xe(id: u32, t: Tok) -> Tok {
        super::g::xm(id, t)
    }
    pub fn fo(id: u32) -> impl FnOnce(Tok) -> W + Send + 'static {
        super::g::fa::<W>(id)
    }
    pub fn fe(id: u32) -> impl FnOnce(Tok) -> Tok + Send + 'static {
        super::g::fm(id)
    }
}

/// `Option<Tok>` flavour
pub mod o {
    pub type W = Option<super::Tok>;
    common_sync!();
    pub fn xo(id: u32) -> W {
        super::g::xo_opt::<W>(id)
    }
    pub fn xf(id: u32, t: &Tok) -> bool {
        super::g::xf(id, t)
    }
    pub fn fo(id: u32) -> impl FnOnce() -> W + Send + 'static {
        super::g::fo_opt::<W>(id)
    }
    pub fn ff(id: u32) -> impl FnOnce(&Tok) -> bool + Send + 'static {
        super::g::ff(id)
    }
}

// ------------------------------------------------------------------------ async

/// Async callbacks over futures of `Result<Tok, Tok>`.
pub mod ar {
    use super::*;
    pub use super::{cap, hexpr, snap, snapm, WExt};
    pub use crate::tok::Tok;
    pub type W = Result<Tok, Tok>;
    pub type F = BoxFuture<'static, W>;

    /// initial value: a future; evaluating the expression is the Init event,
    /// the value is produced when the future is polled past its gate
    pub fn init(id: u32) -> F {
        on_init(id);
        Box::pin(async move {
            crate::sched::gate(id).await;
            mk::<W>(Tok::new(id), id)
        })
    }
    /// `|>` on a future: FutureExt::map, callback sees the whole W
    pub fn fm(id: u32) -> impl FnOnce(W) -> W + Send + 'static {
        super::g::ft::<W>(id)
    }
    pub fn xm(id: u32, w: W) -> W {
        super::g::xt::<W>(id, w)
    }
    fn conv_fut(id: u32, t: Tok) -> F {
        on_call(id, tag::TOK, t.h);
        Box::pin(async move {
            crate::sched::gate(id).await;
            mk::<W>(t.mix(id), id)
        })
    }
    /// `=>`: TryFutureExt::and_then, callback returns a (gateable) future
    pub fn fa(id: u32) -> impl FnOnce(Tok) -> F + Send + 'static {
        on_op(id);
        move |t| conv_fut(id, t)
    }
    pub fn xa(id: u32, t: Tok) -> F {
        conv_fut(id, t)
    }
    /// inline form of `-> tt(ID)`
    pub fn xtt(id: u32, t: Tok) -> Tok {
        super::g::xm(id, t)
    }
    /// `<=`: TryFutureExt::or_else
    pub fn fo(id: u32) -> impl FnOnce(Tok) -> F + Send + 'static {
        on_op(id);
        move |t| conv_fut(id, t)
    }
    pub fn xo(id: u32, t: Tok) -> F {
        conv_fut(id, t)
    }
    /// `!>`: TryFutureExt::map_err
    pub fn fe(id: u32) -> impl FnOnce(Tok) -> Tok + Send + 'static {
        super::g::fm(id)
    }
    pub fn xe(id: u32, t: Tok) -> Tok {
        super::g::xm(id, t)
    }
    /// `??`: FutureExt::inspect
    pub fn fi(id: u32) -> impl FnOnce(&W) + Send + 'static {
        on_op(id);
        move |w: &W| super::g::xi::<W>(id, w)
    }
    pub fn xi(id: u32, w: &W) {
        super::g::xi::<W>(id, w)
    }
    /// `->`: called with the future itself while the step expression is built
    pub fn ft<Fut>(id: u32) -> impl FnOnce(Fut) -> F + Send + 'static
    where
        Fut: Future<Output = W> + Send + 'static,
    {
        on_op(id);
        move |f| xt(id, f)
    }
    pub fn xt<Fut>(id: u32, f: Fut) -> F
    where
        Fut: Future<Output = W> + Send + 'static,
    {
        on_call(id, tag::OTHER, 0);
        Box::pin(async move {
            let w = f.await;
            let (t, h) = w.to_val().tag();
            ev(id, K::Thunk, t, h);
            crate::sched::gate(id).await;
            super::g::then_apply(w, id)
        })
    }
    /// `..then(fd(ID))`: FutureExt::then
    pub fn fd(id: u32) -> impl FnOnce(W) -> F + Send + 'static {
        on_op(id);
        move |w| xd(id, w)
    }
    pub fn xd(id: u32, w: W) -> F {
        let (t, h) = w.to_val().tag();
        on_call(id, t, h);
        Box::pin(async move {
            crate::sched::gate(id).await;
            super::g::then_apply(w, id)
        })
    }
    /// inside wrappers: token to token, token to future of W
    pub fn tt(id: u32) -> impl FnOnce(Tok) -> Tok + Send + 'static {
        super::g::fm(id)
    }
    pub fn tw(id: u32) -> impl FnOnce(Tok) -> F + Send + 'static {
        on_op(id);
        move |t| conv_fut(id, t)
    }
    /// sync callbacks for the body of a `|> >>>` wrapper (it sees a plain W)
    pub mod s {
        pub use super::super::r::{alt, fa, fe, fm, fo, ft, tt, tw, xa, xe, xm, xo, xt, xtt};
    }

    pub fn h_map<const N: usize>(id: u32, a: [Tok; N]) -> Tok {
        super::r::h_map(id, a)
    }
    /// async `and_then` handler returns a future that the macro must await
    pub fn h_and_then<const N: usize>(id: u32, a: [Tok; N]) -> F {
        let t = super::r::h_map(id, a);
        Box::pin(async move {
            crate::sched::gate(id).await;
            ev(id, K::Thunk, tag::TOK, t.h);
            mk::<W>(t, id)
        })
    }
    /// async `then` handler returns a future that the macro must await
    pub fn h_then<const N: usize>(id: u32, a: [W; N]) -> F {
        let hs: Vec<u64> = a.iter().map(|w| w.to_val().code()).collect();
        let h = crate::sem::hfold(id, &hs);
        ev(id, K::HCall, tag::OTHER, h);
        plan::maybe_panic(id, K::HCall);
        drop(a);
        Box::pin(async move {
            crate::sched::gate(id).await;
            ev(id, K::Thunk, tag::TOK, h);
            mk::<W>(Tok::raw(h), id)
        })
    }
}
