//! Static description of a generated "grid" program: n branches, each a list of steps,
//! each step a list of actions over the uniform value type W (Result<Tok,Tok> or
//! Option<Tok>; futures of W in the async macros). The same description is rendered
//! to Rust source by the orchestrator and interpreted by the reference model.

use serde_json::{json, Value};

#[derive(Clone, Copy, Debug, PartialEq, Eq, Hash)]
pub enum Flavor {
    Res,
    Opt,
}

#[derive(Clone, Copy, Debug, PartialEq, Eq, Hash)]
pub struct MacroKind {
    pub is_async: bool,
    pub is_try: bool,
    pub is_spawn: bool,
}

pub const MACROS: [&str; 12] = [
    "join",
    "try_join",
    "join_spawn",
    "try_join_spawn",
    "spawn",
    "try_spawn",
    "join_async",
    "try_join_async",
    "join_async_spawn",
    "try_join_async_spawn",
    "async_spawn",
    "try_async_spawn",
];

pub fn macro_kind(name: &str) -> MacroKind {
    MacroKind {
        is_async: name.contains("async"),
        is_try: name.starts_with("try_"),
        is_spawn: name.contains("spawn"),
    }
}

#[derive(Clone, Copy, Debug, PartialEq, Eq, Hash)]
pub enum Op {
    // operators on W (sync) / future of W (async)
    Map,
    AndThen,
    Filter,
    Or,
    OrElse,
    MapErr,
    Inspect,
    Then,
    Dot,
    // operators on a bare token inside a wrapper body
    TokThen, // `-> tt(ID)`   Tok -> Tok
    TokDot,  // `..bump(ID)`  Tok -> Tok
    TokConv, // `-> tw(ID)`   Tok -> W  (async: Tok -> future of W)
    // terminal operators of wrapper bodies over references
    Look,  // `..look(ID)`  &W -> ()
    Check, // `..check(ID)` &Tok -> bool
}

impl Op {
    pub fn name(self) -> &'static str {
        match self {
            Op::Map => "map",
            Op::AndThen => "and_then",
            Op::Filter => "filter",
            Op::Or => "or",
            Op::OrElse => "or_else",
            Op::MapErr => "map_err",
            Op::Inspect => "inspect",
            Op::Then => "then",
            Op::Dot => "dot",
            Op::TokThen => "tok_then",
            Op::TokDot => "tok_dot",
            Op::TokConv => "tok_conv",
            Op::Look => "look",
            Op::Check => "check",
        }
    }
    pub fn from_name(s: &str) -> Op {
        for o in [
            Op::Map,
            Op::AndThen,
            Op::Filter,
            Op::Or,
            Op::OrElse,
            Op::MapErr,
            Op::Inspect,
            Op::Then,
            Op::Dot,
            Op::TokThen,
            Op::TokDot,
            Op::TokConv,
            Op::Look,
            Op::Check,
        ] {
            if o.name() == s {
                return o;
            }
        }
        panic!("unknown op {}", s)
    }
    pub fn token(self) -> &'static str {
        match self {
            Op::Map => "|>",
            Op::AndThen => "=>",
            Op::Filter => "?>",
            Op::Or => "<|",
            Op::OrElse => "<=",
            Op::MapErr => "!>",
            Op::Inspect => "??",
            Op::Then | Op::TokThen | Op::TokConv => "->",
            Op::Dot | Op::TokDot | Op::Look | Op::Check => "..",
        }
    }
    pub fn is_dot(self) -> bool {
        matches!(self, Op::Dot | Op::TokDot | Op::Look | Op::Check)
    }
}

/// A block capture around an operand: `{ cap(ID); snap(ID, &name)...; operand }`.
#[derive(Clone, Debug, PartialEq)]
pub struct Cap {
    pub id: u32,
    /// indices of branches whose `let` name is read
    pub snaps: Vec<usize>,
}

#[derive(Clone, Debug, PartialEq)]
pub struct Act {
    pub op: Op,
    pub id: u32,
    pub cap: Option<Cap>,
    /// rendering variant of the operand (closure-returning call, inline closure, ...)
    pub form: u8,
    /// `Some(inner)` when the operator is followed by `>>>`
    pub wrap: Option<Vec<Act>>,
    /// wrapper closed by an explicit `<<<` (false: closes implicitly at the end of the step)
    pub closed: bool,
    /// use the alternative spelling (`>.` for Dot)
    pub alt: bool,
}

impl Act {
    pub fn new(op: Op, id: u32) -> Act {
        Act { op, id, cap: None, form: 0, wrap: None, closed: true, alt: false }
    }
}

#[derive(Clone, Debug, PartialEq)]
pub struct Branch {
    /// `let [mut] name =`
    pub name: Option<(String, bool)>,
    pub init: Act,
    /// steps[0] are the instant actions after the initial value; every later step
    /// is non-empty and starts with a deferred (`~`) action
    pub steps: Vec<Vec<Act>>,
}

#[derive(Clone, Copy, Debug, PartialEq, Eq, Hash)]
pub enum HKind {
    Map,
    AndThen,
    Then,
}

impl HKind {
    pub fn name(self) -> &'static str {
        match self {
            HKind::Map => "map",
            HKind::AndThen => "and_then",
            HKind::Then => "then",
        }
    }
}

#[derive(Clone, Debug, PartialEq)]
pub struct Handler {
    pub kind: HKind,
    pub id: u32,
    /// number of branches written before the handler
    pub pos: usize,
    /// handler written as a block that logs its own evaluation
    pub block: bool,
}

#[derive(Clone, Debug, PartialEq, Default)]
pub struct Opts {
    /// name of a harness joiner (see `jvrt::joiners`)
    pub joiner: Option<String>,
    pub lazy: Option<bool>,
    pub transpose: Option<bool>,
    pub futures_path: Option<String>,
    /// order in which the options are written (indices into [path, joiner, transpose, lazy])
    pub order: Vec<u8>,
}

#[derive(Clone, Debug, PartialEq)]
pub struct Prog {
    pub mac: String,
    pub flavor: Flavor,
    pub branches: Vec<Branch>,
    pub handler: Option<Handler>,
    pub opts: Opts,
}

impl Prog {
    pub fn kind(&self) -> MacroKind {
        macro_kind(&self.mac)
    }
    /// a thread-spawning macro with an explicit `lazy_branches(false)`: branch expressions are handed to the
    /// threads as they are (the renderer ends every step in `-> defer`)
    pub fn eager_spawn(&self) -> bool {
        let k = self.kind();
        k.is_spawn && !k.is_async && self.opts.lazy == Some(false)
    }
    pub fn depths(&self) -> Vec<usize> {
        self.branches.iter().map(|b| b.steps.len()).collect()
    }
    pub fn max_steps(&self) -> usize {
        self.depths().into_iter().max().unwrap_or(0)
    }
    pub fn active(&self, step: usize) -> Vec<usize> {
        (0..self.branches.len()).filter(|&b| self.branches[b].steps.len() > step).collect()
    }
}

// ---------------------------------------------------------------- JSON

fn act_to_json(a: &Act) -> Value {
    json!({
        "op": a.op.name(), "id": a.id,
        "cap": a.cap.as_ref().map(|c| json!({"id": c.id, "snaps": c.snaps})),
        "form": a.form,
        "wrap": a.wrap.as_ref().map(|w| w.iter().map(act_to_json).collect::<Vec<_>>()),
        "closed": a.closed, "alt": a.alt,
    })
}

fn act_from_json(v: &Value) -> Act {
    Act {
        op: Op::from_name(v["op"].as_str().unwrap()),
        id: v["id"].as_u64().unwrap() as u32,
        cap: if v["cap"].is_null() {
            None
        } else {
            Some(Cap {
                id: v["cap"]["id"].as_u64().unwrap() as u32,
                snaps: v["cap"]["snaps"].as_array().unwrap().iter().map(|x| x.as_u64().unwrap() as usize).collect(),
            })
        },
        form: v["form"].as_u64().unwrap_or(0) as u8,
        wrap: if v["wrap"].is_null() { None } else { Some(v["wrap"].as_array().unwrap().iter().map(act_from_json).collect()) },
        closed: v["closed"].as_bool().unwrap_or(true),
        alt: v["alt"].as_bool().unwrap_or(false),
    }
}

impl Prog {
    pub fn to_json(&self) -> Value {
        json!({
            "mac": self.mac,
            "flavor": match self.flavor { Flavor::Res => "res", Flavor::Opt => "opt" },
            "branches": self.branches.iter().map(|b| json!({
                "name": b.name.as_ref().map(|(n, m)| json!([n, m])),
                "init": act_to_json(&b.init),
                "steps": b.steps.iter().map(|s| s.iter().map(act_to_json).collect::<Vec<_>>()).collect::<Vec<_>>(),
            })).collect::<Vec<_>>(),
            "handler": self.handler.as_ref().map(|h| json!({"kind": h.kind.name(), "id": h.id, "pos": h.pos, "block": h.block})),
            "opts": json!({
                "joiner": self.opts.joiner, "lazy": self.opts.lazy, "transpose": self.opts.transpose,
                "futures_path": self.opts.futures_path, "order": self.opts.order,
            }),
        })
    }

    pub fn from_json(v: &Value) -> Prog {
        Prog {
            mac: v["mac"].as_str().unwrap().to_string(),
            flavor: if v["flavor"].as_str() == Some("opt") { Flavor::Opt } else { Flavor::Res },
            branches: v["branches"]
                .as_array()
                .unwrap()
                .iter()
                .map(|b| Branch {
                    name: if b["name"].is_null() {
                        None
                    } else {
                        Some((b["name"][0].as_str().unwrap().to_string(), b["name"][1].as_bool().unwrap()))
                    },
                    init: act_from_json(&b["init"]),
                    steps: b["steps"]
                        .as_array()
                        .unwrap()
                        .iter()
                        .map(|s| s.as_array().unwrap().iter().map(act_from_json).collect())
                        .collect(),
                })
                .collect(),
            handler: if v["handler"].is_null() {
                None
            } else {
                let h = &v["handler"];
                Some(Handler {
                    kind: match h["kind"].as_str().unwrap() {
                        "map" => HKind::Map,
                        "and_then" => HKind::AndThen,
                        _ => HKind::Then,
                    },
                    id: h["id"].as_u64().unwrap() as u32,
                    pos: h["pos"].as_u64().unwrap() as usize,
                    block: h["block"].as_bool().unwrap_or(false),
                })
            },
            opts: {
                let o = &v["opts"];
                Opts {
                    joiner: o["joiner"].as_str().map(|s| s.to_string()),
                    lazy: o["lazy"].as_bool(),
                    transpose: o["transpose"].as_bool(),
                    futures_path: o["futures_path"].as_str().map(|s| s.to_string()),
                    order: o["order"].as_array().map(|a| a.iter().map(|x| x.as_u64().unwrap() as u8).collect()).unwrap_or_default(),
                }
            },
        }
    }
}
