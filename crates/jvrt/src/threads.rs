//! Thread-gated runs (C03 spawn variants, C08).
use crate::prog::Prog;
use crate::runner::{Case, CaseReport, Mode};

pub fn run_case(_case: &Case, _prog: &Prog, _mode: &Mode) -> CaseReport {
    let mut r = CaseReport::new();
    r.infra.push("threads runner not built".into());
    r
}
