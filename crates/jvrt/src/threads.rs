//! Thread-gated runs for the thread-spawning macros (C03 spawn variants, C08).
//!
//! One callback per (branch, step) cell is gated: it records its arrival and blocks until the
//! controller releases it. The controller therefore owns the order in which branch threads
//! proceed, and can evaluate invariants while it knows exactly who is blocked where.

use crate::log::{self, Ev, K};
use crate::model::{self, Expect};
use crate::oracle::{Obs, Violation};
use crate::plan::{self, Plan};
use crate::prog::*;
use crate::runner::{new_runner, panic_message, reset_all, Case, CaseFn, CaseReport, Mode};
use crate::sched;
use crate::sem::Out;
use proptest::strategy::{Just, Strategy, ValueTree};
use serde_json::json;
use std::panic::{catch_unwind, AssertUnwindSafe};
use std::sync::atomic::{AtomicBool, Ordering};
use std::sync::Arc;
use std::time::{Duration, Instant};

fn viol(oracle: &'static str, detail: String) -> Violation {
    Violation { oracle, detail }
}

pub struct ThreadRun {
    pub outcome: Option<Out>,
    pub panic_msg: Option<String>,
    pub events: Vec<Ev>,
    pub violations: Vec<Violation>,
    pub hung: bool,
    pub caller_tid: u64,
}

#[derive(Clone, Debug)]
pub struct Schedule {
    /// per step: order in which the branches' gates are released
    pub order: Vec<Vec<usize>>,
    /// which call of a cell is gated: 0 first, 1 middle, 2 last
    pub gate_pos: u8,
    pub caller_name: Option<String>,
}

impl Schedule {
    pub fn to_json(&self) -> serde_json::Value {
        json!({"order": self.order, "gate_pos": self.gate_pos, "caller_name": self.caller_name})
    }
}

/// chooses the gated call of every (branch, step) cell from the model's expected calls
pub fn choose_gates(exp: &Expect, gate_pos: u8) -> Vec<Vec<(usize, u32)>> {
    let mut out = Vec::new();
    for se in &exp.steps {
        let mut v = Vec::new();
        for (b, bs) in se.branches.iter().enumerate() {
            let Some(bs) = bs else { continue };
            let calls: Vec<u32> = bs.calls.iter().filter(|c| c.k == K::Call).map(|c| c.id).collect();
            if calls.is_empty() {
                continue;
            }
            let idx = match gate_pos {
                0 => 0,
                1 => calls.len() / 2,
                _ => calls.len() - 1,
            };
            v.push((b, calls[idx]));
        }
        out.push(v);
    }
    out
}

fn wait_for(pred: impl Fn() -> bool, d: Duration) -> bool {
    let end = Instant::now() + d;
    loop {
        if pred() {
            return true;
        }
        if Instant::now() >= end {
            return false;
        }
        std::thread::sleep(Duration::from_micros(200));
    }
}

fn log_has(k: K, id: u32) -> bool {
    log::snapshot().iter().any(|e| e.k == k && e.id == id)
}

/// Runs one case under thread control. `rendezvous_deadline` bounds the wait for all gated
/// branches of a step to arrive; it is only ever waited for on a failing path.
pub fn run_threaded(case: &Case, prog: &Prog, plan: &Plan, exp: &Expect, gates: &[Vec<(usize, u32)>], sch: &Schedule, mode: &str, rendezvous_deadline: Duration) -> ThreadRun {
    reset_all();
    crate::cb::ASYNC_MODE.store(false, Ordering::SeqCst);
    plan::set(plan.clone());
    let f = match &case.f {
        CaseFn::Sync(f) => *f,
        _ => panic!("threaded run of an async case"),
    };
    let done = Arc::new(AtomicBool::new(false));
    let done2 = done.clone();
    let mut builder = std::thread::Builder::new();
    if let Some(n) = &sch.caller_name {
        builder = builder.name(n.clone());
    }
    let worker = builder
        .spawn(move || {
            log::ev(0, K::Mark, 0, 0);
            let r = catch_unwind(AssertUnwindSafe(|| f()));
            done2.store(true, Ordering::SeqCst);
            sched::notify();
            r
        })
        .expect("spawn worker");
    let mut violations = Vec::new();
    let is_done = || done.load(Ordering::SeqCst);
    let loc = &exp.loc;
    let later_events = |s: usize| -> Vec<String> {
        log::snapshot()
            .iter()
            .filter(|e| !matches!(e.k, K::Mark | K::Joiner | K::Fx | K::HExpr))
            .filter(|e| loc.get(&e.id).map(|l| l.0 != usize::MAX && l.1 > s).unwrap_or(false))
            .map(|e| e.short())
            .collect()
    };
    'steps: for (s, gs) in gates.iter().enumerate() {
        if gs.is_empty() {
            continue;
        }
        let ids: Vec<u32> = gs.iter().map(|g| g.1).collect();
        let multi = prog.active(s).len() > 1;
        let all_arrived = |arr: &[(u32, u64)]| ids.iter().all(|i| arr.iter().any(|a| a.0 == *i));
        let ok = sched::wait_until(|arr| all_arrived(arr), || is_done(), if multi { rendezvous_deadline } else { Duration::from_secs(20) });
        let arr = sched::arrived();
        let complete = all_arrived(&arr);
        if !complete {
            if is_done() {
                break 'steps;
            }
            let _ = ok;
            if multi && mode == "C08" {
                let here: Vec<u32> = ids.iter().copied().filter(|i| arr.iter().any(|a| a.0 == *i)).collect();
                violations.push(viol(
                    "rendezvous",
                    format!("step {}: only gates {:?} of {:?} were reached while all were held closed: the branches of the step are not all running at the same time", s, here, ids),
                ));
            }
            // do not deadlock on a serialising implementation: let everything through
            sched::open_all();
            break 'steps;
        }
        // ---- every gated branch of the step is now blocked inside its callback
        if mode == "C03T" {
            let later = later_events(s);
            if !later.is_empty() {
                violations.push(viol("barrier", format!("step {}: all branches are still inside step {} but later-step events exist: {:?}", s, s, later)));
            }
            if is_done() {
                violations.push(viol("barrier", format!("step {}: macro returned while branches were blocked in step {}", s, s)));
            }
        }
        if mode == "C08" && multi {
            let mut tids: Vec<u64> = gs.iter().filter_map(|g| arr.iter().find(|a| a.0 == g.1).map(|a| a.1)).collect();
            tids.sort();
            let n = tids.len();
            tids.dedup();
            if tids.len() != n {
                violations.push(viol("threads", format!("step {}: {} blocked branches share threads ({} distinct)", s, n, tids.len())));
            }
        }
        // ---- release in the scheduled order
        let order: Vec<usize> = sch.order.get(s).cloned().unwrap_or_default();
        let mut seq: Vec<(usize, u32)> = Vec::new();
        for b in &order {
            if let Some(g) = gs.iter().find(|g| g.0 == *b) {
                seq.push(*g);
            }
        }
        for g in gs {
            if !seq.contains(g) {
                seq.push(*g);
            }
        }
        for (i, (b, id)) in seq.iter().enumerate() {
            let last = i + 1 == seq.len();
            // (C08 too: "the caller continues only after every thread of the step has finished")
            if last && (mode == "C03T" || mode == "C08") && seq.len() > 1 {
                // the other branches have been let go; give them a moment to (wrongly) run ahead
                for (pb, _) in seq.iter().take(i) {
                    if let Some(Some(bs)) = exp.steps.get(s).map(|se| se.branches[*pb].as_ref()) {
                        if let Some(lastc) = bs.calls.iter().rev().find(|c| c.k == K::Call) {
                            let lid = lastc.id;
                            wait_for(|| log_has(K::Call, lid), Duration::from_millis(50));
                        }
                    }
                }
                std::thread::sleep(Duration::from_millis(1));
                let later = later_events(s);
                if !later.is_empty() {
                    violations.push(viol(if mode == "C08" { "threads" } else { "barrier" }, format!("step {}: branch {} is still blocked in step {} but later-step events exist (the caller went on before every thread of the step had finished): {:?}", s, b, s, later)));
                }
                if is_done() && mode == "C03T" {
                    violations.push(viol("barrier", format!("step {}: macro returned while branch {} was blocked", s, b)));
                }
            }
            if last && mode == "C08" && is_done() {
                violations.push(viol("threads", format!("step {}: caller continued before branch {} finished", s, b)));
            }
            sched::release(*id);
            wait_for(|| log_has(K::Pass, *id), Duration::from_secs(5));
        }
    }
    let finished = wait_for(|| is_done(), Duration::from_secs(20));
    let mut hung = false;
    if !finished {
        sched::open_all();
        if !wait_for(|| is_done(), Duration::from_secs(10)) {
            hung = true;
        }
    }
    let (outcome, panic_msg) = if hung {
        (None, Some("worker did not finish".to_string()))
    } else {
        match worker.join() {
            Ok(Ok(o)) => (Some(o), None),
            Ok(Err(p)) => (None, Some(panic_message(&p))),
            Err(p) => (None, Some(panic_message(&p))),
        }
    };
    let events = log::snapshot();
    let caller_tid = events.iter().find(|e| e.k == K::Mark).map(|e| e.tid).unwrap_or(0);
    ThreadRun { outcome, panic_msg, events, violations, hung, caller_tid }
}

/// C08 oracle over the final log: thread identity and names of every callback invocation
pub fn thread_oracle(prog: &Prog, exp: &Expect, events: &[Ev], caller_tid: u64, caller_name: &Option<String>) -> Vec<Violation> {
    let mut out = Vec::new();
    for (s, se) in exp.steps.iter().enumerate() {
        let active = prog.active(s);
        let multi = active.len() > 1;
        let mut tid_of_branch: Vec<(usize, u64)> = Vec::new();
        for e in events.iter().filter(|e| e.k == K::Call) {
            let Some(&(b, es)) = exp.loc.get(&e.id) else { continue };
            if es != s || b == usize::MAX {
                continue;
            }
            if se.branches[b].is_none() {
                continue;
            }
            if multi {
                let want = match caller_name {
                    Some(n) => format!("{}_join_{}", n, b),
                    None => format!("join_{}", b),
                };
                if e.tname.as_deref() != Some(want.as_str()) {
                    out.push(viol("threads", format!("step {} branch {}: callback {} ran on thread named {:?}, expected {:?}", s, b, e.short(), e.tname, want)));
                }
                if e.tid == caller_tid {
                    out.push(viol("threads", format!("step {} branch {}: callback {} ran on the calling thread although {} branches are active", s, b, e.short(), active.len())));
                }
                match tid_of_branch.iter().find(|x| x.0 == b) {
                    Some((_, t)) if *t != e.tid => out.push(viol("threads", format!("step {} branch {}: callbacks ran on two threads", s, b))),
                    Some(_) => {}
                    None => {
                        if let Some((ob, _)) = tid_of_branch.iter().find(|x| x.1 == e.tid) {
                            out.push(viol("threads", format!("step {}: branches {} and {} ran on the same thread", s, ob, b)));
                        }
                        tid_of_branch.push((b, e.tid));
                    }
                }
            } else if e.tid != caller_tid {
                out.push(viol("threads", format!("step {} branch {}: single active branch ran {} on thread {:?}, not on the calling thread", s, b, e.short(), e.tname)));
            }
        }
    }
    out.truncate(8);
    out
}

fn permutations(items: &[usize], limit: usize) -> Vec<Vec<usize>> {
    fn rec(cur: &mut Vec<usize>, rest: &mut Vec<usize>, out: &mut Vec<Vec<usize>>, limit: usize) {
        if out.len() >= limit {
            return;
        }
        if rest.is_empty() {
            out.push(cur.clone());
            return;
        }
        for i in 0..rest.len() {
            let x = rest.remove(i);
            cur.push(x);
            rec(cur, rest, out, limit);
            cur.pop();
            rest.insert(i, x);
        }
    }
    let mut out = Vec::new();
    rec(&mut Vec::new(), &mut items.to_vec(), &mut out, limit);
    out
}

/// Schedules for one program: per step a permutation of the active branches. All combinations
/// when there are few, otherwise proptest-shuffled ones.
pub fn schedules(prog: &Prog, budget: usize, seed: u64) -> (Vec<Schedule>, bool) {
    let steps = prog.max_steps();
    // (the empty name is a name: `_join_<i>`; a non-ASCII one; five choices against three gate positions)
    let names = [None, Some("main".to_string()), Some("w_join_3".to_string()), Some("odd name-1".to_string()), Some(String::new()), Some("\u{43f}\u{43e}\u{442}\u{43e}\u{43a} \u{4e3b}".to_string()), None];
    let per_step: Vec<Vec<Vec<usize>>> = (0..steps).map(|s| permutations(&prog.active(s), 24)).collect();
    let total: usize = per_step.iter().map(|p| p.len()).product();
    let mut out = Vec::new();
    if total <= budget {
        // cartesian product
        let mut idx = vec![0usize; steps];
        let mut k = 0;
        loop {
            let order: Vec<Vec<usize>> = (0..steps).map(|s| per_step[s][idx[s]].clone()).collect();
            out.push(Schedule { order, gate_pos: (k % 3) as u8, caller_name: names[k % names.len()].clone() });
            k += 1;
            let mut i = 0;
            while i < steps {
                idx[i] += 1;
                if idx[i] < per_step[i].len() {
                    break;
                }
                idx[i] = 0;
                i += 1;
            }
            if i == steps {
                break;
            }
        }
        (out, true)
    } else {
        let mut runner = new_runner(seed, 0x7ead, 1);
        for k in 0..budget {
            let order: Vec<Vec<usize>> = (0..steps)
                .map(|s| {
                    let act = prog.active(s);
                    if k == 0 {
                        act
                    } else {
                        Just(act).prop_shuffle().new_tree(&mut runner).unwrap().current()
                    }
                })
                .collect();
            out.push(Schedule { order, gate_pos: (k % 3) as u8, caller_name: names[k % names.len()].clone() });
        }
        (out, false)
    }
}

pub fn run_case(case: &Case, prog: &Prog, mode: &Mode) -> CaseReport {
    let mut rep = CaseReport::new();
    let m = mode.name.as_str();
    let plan0 = Plan::all_good();
    let (scheds, exhaustive) = schedules(prog, mode.budget.max(1), mode.seed ^ case.idx as u64);
    rep.class(if exhaustive { "schedules_exhaustive" } else { "schedules_sampled" });
    let kind = prog.kind();
    for (si, sch) in scheds.iter().enumerate() {
        // mostly the all-succeed plan; every 4th schedule one failing decision point (non-try
        // macros carry the failing value on, try macros stop early: both must keep the invariants)
        let mut plan = plan0.clone();
        if si % 4 == 3 {
            let ids = model::decision_ids(prog);
            if !ids.is_empty() {
                plan.bad = vec![ids[(si / 4) % ids.len()]];
            }
        }
        let exp0 = model::interpret(prog, &plan);
        let gates = choose_gates(&exp0, sch.gate_pos);
        plan.gates = gates.iter().flatten().map(|g| g.1).collect();
        let exp = exp0;
        // C03: expiry only unblocks the run (no verdict depends on it); C08: verdict, confirmed below
        let mut deadline = if m == "C08" { Duration::from_secs(10) } else { Duration::from_secs(2) };
        let mut tr = run_threaded(case, prog, &plan, &exp, &gates, sch, m, deadline);
        if tr.violations.iter().any(|v| v.oracle == "rendezvous") {
            // the only wall-clock dependent verdict: confirm with a doubled deadline
            deadline *= 2;
            tr = run_threaded(case, prog, &plan, &exp, &gates, sch, m, deadline);
        }
        rep.runs += 1;
        if tr.hung {
            rep.infra.push(format!("worker thread did not finish under schedule {}", sch.to_json()));
            break;
        }
        let mut vs = tr.violations.clone();
        let obs = Obs { prog, exp: &exp, events: &tr.events, outcome: tr.outcome.as_ref() };
        match m {
            "C03T" => vs.extend(obs.barrier_log()),
            "C08" => vs.extend(thread_oracle(prog, &exp, &tr.events, tr.caller_tid, &sch.caller_name)),
            _ => {}
        }
        let n = prog.branches.len();
        let depths = prog.depths();
        let non_identity = sch.order.iter().enumerate().any(|(s, o)| *o != prog.active(s));
        let multi_steps = (0..prog.max_steps()).filter(|s| prog.active(*s).len() > 1).count();
        let single_steps = (0..prog.max_steps()).filter(|s| prog.active(*s).len() == 1).count();
        let nt = match m {
            "C03T" => n >= 2 && prog.max_steps() >= 2 && (depths.iter().any(|d| *d != depths[0]) || non_identity),
            _ => multi_steps >= 1 && (single_steps >= 1 || sch.caller_name.as_deref().map(|n| n.contains("_join_")).unwrap_or(false)),
        };
        if nt {
            rep.nontrivial += 1;
            if rep.samples.is_empty() {
                rep.samples.push(json!({"schedule": sch.to_json(), "plan": plan.to_json(), "n_events": tr.events.len()}));
            }
        }
        rep.class(&format!("gate_pos={}", sch.gate_pos));
        rep.class(&format!("caller_named={}", sch.caller_name.is_some()));
        if non_identity {
            rep.class("non_identity_release_order");
        }
        if single_steps > 0 {
            rep.class("has_single_active_step");
        }
        let _ = kind;
        if !vs.is_empty() {
            rep.violation(&plan, json!({"schedule": sch.to_json(), "panic": tr.panic_msg}), &vs, &tr.events);
            break;
        }
    }
    rep
}
