//! Value-level semantics of the harness callbacks (what *our* callbacks compute),
//! shared by the runtime callbacks and the reference model. What the *macro* does
//! (which callback is invoked when, with what) is encoded only in `model`.

use crate::log::tag;
use crate::prog::Flavor;
pub use crate::tok::{mixf, newh};

#[derive(Clone, Copy, Debug, PartialEq, Eq, Hash, PartialOrd, Ord)]
pub enum Val {
    Ok(u64),
    Err(u64),
    Nil,
}

impl Val {
    pub fn is_ok(self) -> bool {
        matches!(self, Val::Ok(_))
    }
    pub fn tag(self) -> (u8, u64) {
        match self {
            Val::Ok(h) => (tag::OK, h),
            Val::Err(h) => (tag::ERR, h),
            Val::Nil => (tag::NIL, 0),
        }
    }
    pub fn code(self) -> u64 {
        match self {
            Val::Ok(h) => h,
            Val::Err(h) => !h,
            Val::Nil => 0x5555_5555_5555_5555,
        }
    }
    pub fn to_json(self) -> serde_json::Value {
        match self {
            Val::Ok(h) => serde_json::json!({"ok": format!("{:x}", h)}),
            Val::Err(h) => serde_json::json!({"err": format!("{:x}", h)}),
            Val::Nil => serde_json::json!("nil"),
        }
    }
}

fn fail(flavor: Flavor, h: u64) -> Val {
    match flavor {
        Flavor::Res => Val::Err(h),
        Flavor::Opt => Val::Nil,
    }
}

/// initial values and `<|` alternatives
pub fn init_sem(flavor: Flavor, id: u32, bad: bool) -> Val {
    if bad {
        fail(flavor, newh(id))
    } else {
        Val::Ok(newh(id))
    }
}

/// callbacks `Tok -> W`
pub fn conv_sem(flavor: Flavor, h: u64, id: u32, bad: bool) -> Val {
    let m = mixf(h, id);
    if bad {
        fail(flavor, m)
    } else {
        Val::Ok(m)
    }
}

/// callbacks `W -> W`
pub fn then_sem(flavor: Flavor, cur: Val, id: u32, bad: bool) -> Val {
    let payload = match cur {
        Val::Ok(h) | Val::Err(h) => h,
        Val::Nil => newh(id),
    };
    conv_sem(flavor, payload, id, bad)
}

/// `Option::or_else` callback (`FnOnce() -> Option<Tok>`)
pub fn orelse_opt_sem(id: u32, bad: bool) -> Val {
    if bad {
        Val::Nil
    } else {
        Val::Ok(newh(id))
    }
}

pub fn hfold(id: u32, hs: &[u64]) -> u64 {
    let mut a = newh(id);
    for h in hs {
        a = mixf(a ^ h.rotate_left(7), id);
    }
    a
}

/// Result of a macro evaluation in a uniform shape.
#[derive(Clone, Debug, PartialEq, Eq, Hash)]
pub enum Out {
    /// non-try macro without handler: one W per branch
    Vals(Vec<Val>),
    /// try macro without handler, success: unwrapped tokens in branch order
    Toks(Vec<u64>),
    /// a single W: try failure, or the value produced through a handler
    One(Val),
}

impl Out {
    pub fn to_json(&self) -> serde_json::Value {
        match self {
            Out::Vals(v) => serde_json::json!({"vals": v.iter().map(|x| x.to_json()).collect::<Vec<_>>()}),
            Out::Toks(v) => serde_json::json!({"toks": v.iter().map(|x| format!("{:x}", x)).collect::<Vec<_>>()}),
            Out::One(v) => serde_json::json!({"one": v.to_json()}),
        }
    }
}
