//! Runtime support linked into generated programs: event log, move-only tokens, plans,
//! scheduling gates, the reference model and the in-binary runners/oracles.
pub mod alloc;
pub mod asyncx;
pub mod cb;
pub mod chainrt;
pub mod extra;
pub mod log;
pub mod model;
pub mod oracle;
pub mod plan;
pub mod prog;
pub mod runner;
pub mod sched;
pub mod sem;
pub mod threads;
pub mod tok;
