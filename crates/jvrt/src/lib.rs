//! Runtime support linked into generated programs: event log, move-only tokens, plans,
//! scheduling gates, the reference model and the in-binary runners/oracles.
pub mod alloc;
pub mod asyncx;
pub mod cb;
pub mod chainrt;
pub mod extra;
pub mod joiners;
pub mod log;
pub mod model;
pub mod oracle;
pub mod plan;
pub mod prog;
pub mod runner;
pub mod sched;
pub mod sem;
pub mod threads;
pub mod tok;

#[doc(hidden)]
pub use futures as __futures;

/// Stand-in for the futures crate (see `joiners`): everything the expansions name under
/// `futures_crate_path`.
pub mod fx {
    pub use crate::jv_fx_join as join;
    pub use crate::jv_fx_try_join as try_join;
    pub use futures::{FutureExt, StreamExt, TryFutureExt, TryStreamExt};
    pub mod future {
        pub use futures::future::*;
    }
}
