//! Oracles over one run: (program, plan, model expectation, observed outcome, event log).
//! Each oracle checks exactly what one listed property states; a check enables only the
//! oracles of its own property.

use crate::log::{Ev, K};
use crate::model::{ExpEv, Expect};
use crate::prog::*;
use crate::sem::Out;
use std::collections::HashMap;

#[derive(Clone, Debug)]
pub struct Violation {
    pub oracle: &'static str,
    pub detail: String,
}

fn v(oracle: &'static str, detail: String) -> Violation {
    Violation { oracle, detail }
}

pub struct Obs<'a> {
    pub prog: &'a Prog,
    pub exp: &'a Expect,
    pub events: &'a [Ev],
    /// None when the evaluation panicked
    pub outcome: Option<&'a Out>,
}

fn fmt_evs(e: &[ExpEv]) -> String {
    e.iter().map(|x| x.short()).collect::<Vec<_>>().join(" ")
}

fn obs_to_exp(e: &Ev) -> ExpEv {
    ExpEv { id: e.id, k: e.k, tag: e.tag, h: e.h }
}

impl<'a> Obs<'a> {
    fn loc(&self, id: u32) -> Option<(usize, usize)> {
        self.exp.loc.get(&id).copied()
    }

    /// observed Call/Thunk events of (branch, step), in log order
    pub fn calls_of(&self, b: usize, s: usize) -> Vec<ExpEv> {
        self.events
            .iter()
            .filter(|e| matches!(e.k, K::Call | K::Thunk) && self.loc(e.id) == Some((b, s)))
            .map(obs_to_exp)
            .collect()
    }

    /// C04 / C05 / C13 / C17: the macro's value
    pub fn outcome(&self) -> Vec<Violation> {
        match self.outcome {
            None => vec![v("outcome", format!("evaluation panicked; expected one of {:?}", self.exp.outcomes))],
            Some(o) => {
                if self.exp.outcomes.iter().any(|e| e == o) {
                    vec![]
                } else {
                    vec![v("outcome", format!("got {:?}, expected one of {:?}", o, self.exp.outcomes))]
                }
            }
        }
    }

    /// Is a step one whose branches may legitimately be cut short (async try failure)?
    fn step_may_be_partial(&self, s: usize) -> bool {
        let k = self.prog.kind();
        k.is_async && k.is_try && self.exp.fail_step == Some(s)
    }

    /// C01-ish / C07 / C10 / C17: per-branch ordered callback invocations equal the model's
    pub fn call_sequences(&self) -> Vec<Violation> {
        let mut out = Vec::new();
        for (s, se) in self.exp.steps.iter().enumerate() {
            for (b, bs) in se.branches.iter().enumerate() {
                let Some(bs) = bs else { continue };
                let got = self.calls_of(b, s);
                let ok = if self.step_may_be_partial(s) {
                    got.len() <= bs.calls.len() && got[..] == bs.calls[..got.len()]
                } else {
                    got == bs.calls
                };
                if !ok {
                    out.push(v(
                        "call_sequence",
                        format!("branch {} step {}: got [{}], expected [{}]", b, s, fmt_evs(&got), fmt_evs(&bs.calls)),
                    ));
                }
            }
        }
        out
    }

    /// C10: every reached user expression evaluated exactly once, callbacks invoked exactly as
    /// often as the method invokes them (multiset of all events equals the model's)
    pub fn multiset(&self) -> Vec<Violation> {
        let mut exp: HashMap<ExpEv, i64> = HashMap::new();
        let mut optional: HashMap<ExpEv, i64> = HashMap::new();
        // captures written inside a wrapper body: whether they run when the wrapper's closure is
        // never invoked is C11's business (hoisting); here they may happen 0 or 1 times
        let mut in_wrapper: std::collections::HashSet<u32> = std::collections::HashSet::new();
        for b in &self.prog.branches {
            for cell in &b.steps {
                for a in cell {
                    if let Some(inner) = &a.wrap {
                        let mut v = Vec::new();
                        crate::model::all_acts(inner, &mut v);
                        for x in v {
                            if let Some(c) = &x.cap {
                                in_wrapper.insert(c.id);
                                in_wrapper.insert(x.id);
                            }
                        }
                    }
                }
            }
        }
        for (s, se) in self.exp.steps.iter().enumerate() {
            for e in &se.caps {
                if in_wrapper.contains(&e.id) {
                    *optional.entry(e.clone()).or_default() += 1;
                } else {
                    *exp.entry(e.clone()).or_default() += 1;
                }
            }
            let partial = self.step_may_be_partial(s);
            for bs in se.branches.iter().flatten() {
                for e in bs.calls.iter().chain(bs.ops.iter()) {
                    // in an async try step that fails, siblings may be dropped half way:
                    // their poll-time events become optional (construction-time ones are not,
                    // but which is which depends on nesting, so all are treated as optional)
                    if partial && e.k != K::Init {
                        *optional.entry(e.clone()).or_default() += 1;
                    } else {
                        *exp.entry(e.clone()).or_default() += 1;
                    }
                }
            }
        }
        for e in [&self.exp.hexpr, &self.exp.hcall, &self.exp.hthunk].into_iter().flatten() {
            *exp.entry(e.clone()).or_default() += 1;
        }
        let mut got: HashMap<ExpEv, i64> = HashMap::new();
        for e in self.events {
            if matches!(e.k, K::Init | K::Op | K::Call | K::Thunk | K::Cap | K::Snap | K::HExpr | K::HCall) {
                *got.entry(obs_to_exp(e)).or_default() += 1;
            }
        }
        let mut out = Vec::new();
        for (e, n) in &got {
            let lo = exp.get(e).copied().unwrap_or(0);
            let hi = lo + optional.get(e).copied().unwrap_or(0);
            if *n < lo || *n > hi {
                out.push(v("multiset", format!("event {} happened {} times, expected {}..={}", e.short(), n, lo, hi)));
            }
        }
        for (e, n) in &exp {
            if !got.contains_key(e) && *n > 0 {
                out.push(v("multiset", format!("event {} never happened, expected {} times", e.short(), n)));
            }
        }
        out.sort_by(|a, b| a.detail.cmp(&b.detail));
        out
    }

    /// C06: nothing of a later step after a failed step; map/and_then handler not called;
    /// sync / thread-spawning: every branch of the failing step runs the step to its end
    pub fn abort(&self) -> Vec<Violation> {
        let mut out = Vec::new();
        let Some(fs) = self.exp.fail_step else { return out };
        let kind = self.prog.kind();
        for e in self.events {
            if let Some((b, s)) = self.loc(e.id) {
                if b == usize::MAX {
                    if e.k == K::HCall {
                        out.push(v("abort", format!("handler called although step {} failed: {}", fs, e.short())));
                    }
                } else if s > fs {
                    out.push(v("abort", format!("event of step {} (branch {}) after step {} failed: {}", s, b, fs, e.short())));
                }
            }
        }
        if !kind.is_async {
            let se = &self.exp.steps[fs];
            for (b, bs) in se.branches.iter().enumerate() {
                let Some(bs) = bs else { continue };
                let got = self.calls_of(b, fs);
                if got != bs.calls {
                    out.push(v(
                        "abort",
                        format!("branch {} did not run failing step {} to its end: got [{}], expected [{}]", b, fs, fmt_evs(&got), fmt_evs(&bs.calls)),
                    ));
                }
            }
        }
        out
    }

    /// C03 (log part): every event of step k precedes every event of step k+1, and each
    /// branch's step-k+1 callbacks see that branch's own step-k value
    pub fn barrier_log(&self) -> Vec<Violation> {
        let mut out = Vec::new();
        let mut max_seq: HashMap<usize, (u64, String)> = HashMap::new();
        let mut min_seq: HashMap<usize, (u64, String)> = HashMap::new();
        for e in self.events {
            if matches!(e.k, K::Joiner | K::Fx | K::Mark | K::HExpr) {
                continue;
            }
            if let Some((b, s)) = self.loc(e.id) {
                if b == usize::MAX {
                    continue;
                }
                let mx = max_seq.entry(s).or_insert((e.seq, e.short()));
                if e.seq >= mx.0 {
                    *mx = (e.seq, e.short());
                }
                let mn = min_seq.entry(s).or_insert((e.seq, e.short()));
                if e.seq <= mn.0 {
                    *mn = (e.seq, e.short());
                }
            }
        }
        let steps = self.prog.max_steps();
        for s in 0..steps {
            for s2 in (s + 1)..steps {
                if let (Some(a), Some(b)) = (max_seq.get(&s), min_seq.get(&s2)) {
                    if a.0 > b.0 {
                        out.push(v("barrier", format!("event {} of step {} happened after event {} of step {}", a.1, s, b.1, s2)));
                    }
                }
            }
        }
        out
    }

    /// C11: captures evaluated exactly once, after all events of the previous step, before every
    /// non-capture event of their own step, in branch-then-position order
    pub fn captures(&self) -> Vec<Violation> {
        let mut out = Vec::new();
        for (s, se) in self.exp.steps.iter().enumerate() {
            let cap_ids: Vec<u32> = se.caps.iter().filter(|e| e.k == K::Cap).map(|e| e.id).collect();
            if cap_ids.is_empty() {
                continue;
            }
            // observed capture-phase events of this step: Cap/Snap of these ids, plus the Op/Init
            // events of the operands they wrap
            let wrapped: Vec<u32> = se.caps.iter().filter(|e| matches!(e.k, K::Op | K::Init)).map(|e| e.id).collect();
            let got: Vec<&Ev> = self
                .events
                .iter()
                .filter(|e| {
                    (matches!(e.k, K::Cap | K::Snap) && cap_ids.contains(&e.id)) || (matches!(e.k, K::Op | K::Init) && wrapped.contains(&e.id))
                })
                .collect();
            let got_e: Vec<ExpEv> = got.iter().map(|e| obs_to_exp(e)).collect();
            // snapshot *values* are C12's business: compare with tags/hashes erased
            let erase = |v: &[ExpEv]| -> Vec<(u32, K)> { v.iter().map(|e| (e.id, e.k)).collect() };
            if erase(&got_e) != erase(&se.caps) {
                out.push(v("captures", format!("step {}: capture phase was [{}], expected [{}]", s, fmt_evs(&got_e), fmt_evs(&se.caps))));
                continue;
            }
            let last_cap_seq = got.iter().map(|e| e.seq).max().unwrap_or(0);
            let first_cap_seq = got.iter().map(|e| e.seq).min().unwrap_or(0);
            for e in self.events {
                let Some((b, es)) = self.loc(e.id) else { continue };
                if b == usize::MAX || matches!(e.k, K::Joiner | K::Fx | K::Mark) {
                    continue;
                }
                let is_cap_phase = got.iter().any(|g| g.seq == e.seq);
                if is_cap_phase {
                    continue;
                }
                if es == s && e.seq < last_cap_seq {
                    out.push(v("captures", format!("step {}: {} happened before the step's captures were done", s, e.short())));
                }
                if es < s && e.seq > first_cap_seq {
                    out.push(v("captures", format!("step {}: capture ran before {} of step {}", s, e.short(), es)));
                }
            }
        }
        out
    }

    /// C12: snapshots of `let` names equal the named branch's most recent step result
    pub fn snapshots(&self) -> Vec<Violation> {
        let mut out = Vec::new();
        for (s, se) in self.exp.steps.iter().enumerate() {
            let mut i = 0;
            while i < se.caps.len() {
                if se.caps[i].k == K::Cap {
                    let id = se.caps[i].id;
                    let exp: Vec<ExpEv> = se.caps[i + 1..].iter().take_while(|e| e.k == K::Snap && e.id == id).cloned().collect();
                    let got: Vec<ExpEv> = self.events.iter().filter(|e| e.k == K::Snap && e.id == id).map(obs_to_exp).collect();
                    if got != exp {
                        out.push(v("snapshots", format!("step {} capture {}: snapshots [{}], expected [{}]", s, id, fmt_evs(&got), fmt_evs(&exp))));
                    }
                }
                i += 1;
            }
        }
        out
    }

    /// C13: handler called exactly once / not at all, with the right arguments
    pub fn handler(&self) -> Vec<Violation> {
        let mut out = Vec::new();
        let Some(h) = &self.prog.handler else { return out };
        let calls: Vec<ExpEv> = self.events.iter().filter(|e| e.k == K::HCall && e.id == h.id).map(obs_to_exp).collect();
        let exp: Vec<ExpEv> = self.exp.hcall.iter().cloned().collect();
        if calls != exp {
            out.push(v("handler", format!("handler calls [{}], expected [{}]", fmt_evs(&calls), fmt_evs(&exp))));
        }
        let thunks: Vec<ExpEv> = self.events.iter().filter(|e| e.k == K::Thunk && e.id == h.id).map(obs_to_exp).collect();
        let expt: Vec<ExpEv> = self.exp.hthunk.iter().cloned().collect();
        if thunks != expt {
            out.push(v("handler", format!("handler future ran [{}], expected [{}]", fmt_evs(&thunks), fmt_evs(&expt))));
        }
        out
    }

    /// C16: custom joiner invoked exactly once per executed step with more than one active branch,
    /// with exactly those branches in branch order (argument p evaluates the p-th active branch),
    /// never for a single active branch; with lazy branches nothing of a branch runs before the
    /// joiner calls its thunk; futures shim join! / try_join! used once per such step
    pub fn joiner(&self) -> Vec<Violation> {
        let mut out = Vec::new();
        let kind = self.prog.kind();
        let jid = crate::joiners::JOINER_ID;
        let executed = self.exp.steps.len();
        let multi_steps: Vec<usize> = (0..executed).filter(|s| self.prog.active(*s).len() > 1).collect();
        if self.prog.opts.joiner.is_some() {
            let enters: Vec<&Ev> = self.events.iter().filter(|e| e.id == jid && e.k == K::Joiner && e.tag == 0).collect();
            let arities: Vec<usize> = enters.iter().map(|e| e.h as usize).collect();
            let want: Vec<usize> = multi_steps.iter().map(|s| self.prog.active(*s).len()).collect();
            if arities != want {
                out.push(v("joiner", format!("joiner invocations had arities {:?}; expected one per step with > 1 active branches: {:?} (steps {:?})", arities, want, multi_steps)));
                return out;
            }
            // per invocation: marks, and what runs between them
            for (k, s) in multi_steps.iter().enumerate() {
                let act = self.prog.active(*s);
                let start = enters[k].seq;
                let end = self.events.iter().find(|e| e.id == jid && e.k == K::Joiner && e.tag == 2 && e.seq > start).map(|e| e.seq).unwrap_or(u64::MAX);
                let marks: Vec<(u64, usize)> = self.events.iter().filter(|e| e.id == jid && e.k == K::Joiner && e.tag == 1 && e.seq > start && e.seq < end).map(|e| (e.seq, e.h as usize)).collect();
                let mut seen: Vec<usize> = marks.iter().map(|m| m.1).collect();
                seen.sort();
                if seen != (0..act.len()).collect::<Vec<_>>() {
                    out.push(v("joiner", format!("step {}: joiner evaluated arguments {:?}, expected each of 0..{} once", s, marks.iter().map(|m| m.1).collect::<Vec<_>>(), act.len())));
                    continue;
                }
                // lazy branches in the sequential macros: a branch is handed over as a closure, so
                // everything it does in this step (outside the capture phase) happens while the joiner
                // calls *its* thunk. (For eager branches only the value matters - where the argument
                // expression is evaluated is not part of the property; the position tags carried by the
                // values that continue show which argument was which.)
                if !kind.is_async && !kind.is_spawn && self.prog.opts.lazy == Some(true) {
                    let cap_ids: Vec<u32> = self.exp.steps[*s].caps.iter().map(|e| e.id).collect();
                    for e in self.events {
                        let Some((b, es)) = self.loc(e.id) else { continue };
                        if es != *s || b == usize::MAX || cap_ids.contains(&e.id) {
                            continue;
                        }
                        if !matches!(e.k, K::Init | K::Op | K::Call) {
                            continue;
                        }
                        // which mark interval is it in?
                        let pos = marks.iter().filter(|m| m.0 < e.seq).max_by_key(|m| m.0).map(|m| m.1);
                        let want_pos = act.iter().position(|x| *x == b);
                        if e.seq < start || e.seq > end || pos != want_pos {
                            out.push(v(
                                "joiner",
                                format!("step {}: {} of branch {} ran {} (argument {:?} of the joiner was being evaluated), expected inside argument {:?}", s, e.short(), b, if e.seq < start { "before the joiner was invoked" } else { "inside the joiner" }, pos, want_pos),
                            ));
                            break;
                        }
                    }
                }
            }
        } else if self.prog.opts.futures_path.as_deref() == Some("::jvrt::fx") {
            let n = self.events.iter().filter(|e| e.id == jid && e.k == K::Fx).count();
            if n != multi_steps.len() {
                out.push(v("joiner", format!("futures shim join!/try_join! used {} times, expected once per step with > 1 active branches ({})", n, multi_steps.len())));
            }
        }
        out
    }
}
