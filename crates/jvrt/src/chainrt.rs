//! Runtime for the typed chain programs (C01 / C02 differential): a small universe of value
//! types whose values are built from hashes, instrumented data-dependent callbacks, and the
//! runner that compares the macro side of each case with its plain-Rust reference side.

use crate::log::{self, tag, K};
use crate::tok::mixf;
use serde_json::{json, Value};
use std::collections::BTreeMap;
use std::fmt::Debug;
use std::panic::{catch_unwind, AssertUnwindSafe};
use std::sync::atomic::{AtomicU64, Ordering};

static SEED: AtomicU64 = AtomicU64::new(0);

pub fn set_seed(s: u64) {
    SEED.store(s, Ordering::SeqCst);
}
pub fn seed() -> u64 {
    SEED.load(Ordering::SeqCst)
}

/// Values of the type universe: hashable, buildable from a seed, clone-counted through `C`.
pub trait Val: Debug + 'static + Sized {
    fn hashv(&self) -> u64;
    fn build(seed: u64) -> Self;
}

impl Val for i64 {
    fn hashv(&self) -> u64 {
        mixf(*self as u64, 11)
    }
    fn build(seed: u64) -> Self {
        (mixf(seed, 1) % 19) as i64 - 4
    }
}
impl Val for usize {
    fn hashv(&self) -> u64 {
        mixf(*self as u64, 12)
    }
    fn build(seed: u64) -> Self {
        (mixf(seed, 2) % 7) as usize
    }
}
impl Val for bool {
    fn hashv(&self) -> u64 {
        mixf(*self as u64, 13)
    }
    fn build(seed: u64) -> Self {
        mixf(seed, 3) % 2 == 0
    }
}
impl Val for () {
    fn hashv(&self) -> u64 {
        14
    }
    fn build(_seed: u64) -> Self {}
}
impl<T: Val> Val for Option<T> {
    fn hashv(&self) -> u64 {
        match self {
            Some(t) => mixf(t.hashv(), 15),
            None => 16,
        }
    }
    fn build(seed: u64) -> Self {
        if mixf(seed, 4) % 4 == 0 {
            None
        } else {
            Some(T::build(mixf(seed, 5)))
        }
    }
}
impl<T: Val> Val for Result<T, i64> {
    fn hashv(&self) -> u64 {
        match self {
            Ok(t) => mixf(t.hashv(), 17),
            Err(e) => mixf(*e as u64, 18),
        }
    }
    fn build(seed: u64) -> Self {
        if mixf(seed, 6) % 4 == 0 {
            Err((mixf(seed, 7) % 5) as i64)
        } else {
            Ok(T::build(mixf(seed, 8)))
        }
    }
}
impl<T: Val> Val for Vec<T> {
    fn hashv(&self) -> u64 {
        self.iter().fold(19, |a, t| mixf(a ^ t.hashv(), 20))
    }
    fn build(seed: u64) -> Self {
        let n = (mixf(seed, 9) % 5) as usize; // 0..=4 elements, empty included
        (0..n).map(|i| T::build(mixf(seed, 100 + i as u32))).collect()
    }
}
impl<A: Val, B: Val> Val for (A, B) {
    fn hashv(&self) -> u64 {
        mixf(self.0.hashv() ^ self.1.hashv().rotate_left(9), 21)
    }
    fn build(seed: u64) -> Self {
        (A::build(mixf(seed, 22)), B::build(mixf(seed, 23)))
    }
}

/// A value that counts its clones and drops (moves are free): `Ck`.
pub struct Ck(pub i64);
impl Ck {
    fn mk(v: i64) -> Ck {
        crate::tok::CREATED.fetch_add(1, Ordering::SeqCst);
        crate::tok::LIVE.fetch_add(1, Ordering::SeqCst);
        Ck(v)
    }
}
impl Clone for Ck {
    fn clone(&self) -> Self {
        crate::tok::CLONED.fetch_add(1, Ordering::SeqCst);
        Ck::mk(self.0)
    }
}
impl Drop for Ck {
    fn drop(&mut self) {
        crate::tok::DROPPED.fetch_add(1, Ordering::SeqCst);
        crate::tok::LIVE.fetch_sub(1, Ordering::SeqCst);
    }
}
impl Default for Ck {
    fn default() -> Self {
        Ck::mk(0)
    }
}
impl Debug for Ck {
    fn fmt(&self, f: &mut std::fmt::Formatter<'_>) -> std::fmt::Result {
        write!(f, "Ck({})", self.0)
    }
}
impl Val for Ck {
    fn hashv(&self) -> u64 {
        mixf(self.0 as u64, 24)
    }
    fn build(seed: u64) -> Self {
        Ck::mk((mixf(seed, 25) % 11) as i64)
    }
}

/// A value that is neither `Send` nor `Clone` (C19: the non-spawning macros must accept it).
pub struct Ns(pub i64, std::rc::Rc<()>);
impl Debug for Ns {
    fn fmt(&self, f: &mut std::fmt::Formatter<'_>) -> std::fmt::Result {
        write!(f, "Ns({})", self.0)
    }
}
impl Default for Ns {
    fn default() -> Self {
        Ns(0, std::rc::Rc::new(()))
    }
}
impl Val for Ns {
    fn hashv(&self) -> u64 {
        mixf(self.0 as u64, 26)
    }
    fn build(seed: u64) -> Self {
        Ns((mixf(seed, 27) % 13) as i64, std::rc::Rc::new(()))
    }
}
/// A value that is `Send` but not `Sync` (holds a Cell): the spawning macros document `Send +
/// 'static` only, so they must accept it (C07).
pub struct Sn(pub std::cell::Cell<i64>);
impl Debug for Sn {
    fn fmt(&self, f: &mut std::fmt::Formatter<'_>) -> std::fmt::Result {
        write!(f, "Sn({})", self.0.get())
    }
}
impl Default for Sn {
    fn default() -> Self {
        Sn(std::cell::Cell::new(0))
    }
}
impl Val for Sn {
    fn hashv(&self) -> u64 {
        mixf(self.0.get() as u64, 33)
    }
    fn build(seed: u64) -> Self {
        Sn(std::cell::Cell::new((mixf(seed, 34) % 13) as i64))
    }
}
/// `Send + Sync`, move-only twin of `Ns` / `Sn` (used by control programs).
pub struct Sy(pub i64);
impl Debug for Sy {
    fn fmt(&self, f: &mut std::fmt::Formatter<'_>) -> std::fmt::Result {
        // prints (and hashes, and is built) like the value it stands in for, so that results stay comparable
        write!(f, "Ns({})", self.0)
    }
}
impl Default for Sy {
    fn default() -> Self {
        Sy(0)
    }
}
impl Val for Sy {
    fn hashv(&self) -> u64 {
        mixf(self.0 as u64, 26)
    }
    fn build(seed: u64) -> Self {
        Sy((mixf(seed, 27) % 13) as i64)
    }
}
/// A move-only value (`Send`, not `Clone`).
pub struct Mv(pub i64);
impl Debug for Mv {
    fn fmt(&self, f: &mut std::fmt::Formatter<'_>) -> std::fmt::Result {
        write!(f, "Mv({})", self.0)
    }
}
impl Default for Mv {
    fn default() -> Self {
        Mv(0)
    }
}
impl Val for Mv {
    fn hashv(&self) -> u64 {
        mixf(self.0 as u64, 28)
    }
    fn build(seed: u64) -> Self {
        Mv((mixf(seed, 29) % 13) as i64)
    }
}
/// callback over a mutable borrow of a caller's local: changes it in place
pub fn inc_mut(id: u32) -> impl Fn(&mut i64) -> i64 + Copy + Send + Sync + 'static {
    move |x: &mut i64| {
        call(id, mixf(*x as u64, 30));
        *x = x.wrapping_add(1);
        *x
    }
}
/// callback over a shared borrow of a caller's local
pub fn rd(id: u32) -> impl Fn(&i64) -> i64 + Copy + Send + Sync + 'static {
    move |x: &i64| {
        call(id, mixf(*x as u64, 32));
        *x
    }
}

/// owned twins of `rd` / `inc_mut` (control programs that do not borrow)
pub fn rdo(id: u32) -> impl Fn(i64) -> i64 + Copy + Send + Sync + 'static {
    move |x: i64| {
        call(id, mixf(x as u64, 32));
        x
    }
}
pub fn inco(id: u32) -> impl Fn(i64) -> i64 + Copy + Send + Sync + 'static {
    move |x: i64| {
        call(id, mixf(x as u64, 30));
        x.wrapping_add(1)
    }
}

fn call(id: u32, h: u64) {
    log::ev(id, K::Call, tag::OTHER, h);
}

/// initial value `k` of the current input
pub fn inp<T: Val>(k: u32) -> T {
    T::build(mixf(seed(), 1000 + k))
}
/// an operand *value* (for `<|`, `>@>`, `>^>`, fold initial values): logged as an operand evaluation
pub fn altv<T: Val>(id: u32) -> T {
    log::ev(id, K::Op, tag::NONE, 0);
    T::build(mixf(seed(), id))
}
/// `A -> B` callback, result derived from the argument and the id
pub fn cbf<A: Val, B: Val>(id: u32) -> impl Fn(A) -> B + Copy + Send + Sync + 'static {
    move |a: A| xcbf::<A, B>(id, a)
}
/// like `cbf`, but evaluating the operand expression is an event of its own (an operand evaluation):
/// its place in the order of events is part of what the operator means
pub fn lcbf<A: Val, B: Val>(id: u32) -> impl Fn(A) -> B + Copy + Send + Sync + 'static {
    log::ev(id, K::Op, tag::NONE, 0);
    move |a: A| xcbf::<A, B>(id, a)
}
pub fn xcbf<A: Val, B: Val>(id: u32, a: A) -> B {
    let h = a.hashv();
    call(id, h);
    B::build(mixf(h, id))
}
/// predicate over a reference
pub fn pred<A: Val>(id: u32) -> impl Fn(&A) -> bool + Copy + Send + Sync + 'static {
    move |a: &A| xpred::<A>(id, a)
}
pub fn xpred<A: Val>(id: u32, a: &A) -> bool {
    let h = a.hashv();
    call(id, h);
    mixf(h, id) % 3 != 0
}
/// inspector over a reference
pub fn ins<A: Val>(id: u32) -> impl Fn(&A) + Copy + Send + Sync + 'static {
    move |a: &A| xins::<A>(id, a)
}
/// the same inspector holding an `Rc`: neither `Send` nor `Sync` (the non-spawning macros must accept it)
pub fn ins_ns<A: Val>(id: u32) -> impl Fn(&A) + 'static {
    let keep = std::rc::Rc::new(id);
    move |a: &A| xins::<A>(*keep, a)
}
pub fn xins<A: Val>(id: u32, a: &A) {
    call(id, a.hashv());
}
/// inspector for values outside the universe (iterators, futures): logs the call only
pub fn insany<X>(id: u32) -> impl Fn(&X) + Copy + Send + Sync + 'static {
    move |_x: &X| call(id, 0)
}
/// lazy alternative (`Option::or_else`)
pub fn lazy<T: Val>(id: u32) -> impl Fn() -> T + Copy + Send + Sync + 'static {
    move || {
        call(id, 0);
        T::build(mixf(seed(), id))
    }
}
/// binary callback for fold / try_fold
pub fn cb2<A: Val, B: Val, C: Val>(id: u32) -> impl Fn(A, B) -> C + Copy + Send + Sync + 'static {
    move |a: A, b: B| {
        let h = mixf(a.hashv() ^ b.hashv().rotate_left(5), 31);
        call(id, h);
        C::build(mixf(h, id))
    }
}
/// `->` consumer of an iterator
pub fn to_vec<T: Val, I: Iterator<Item = T>>(id: u32) -> impl Fn(I) -> Vec<T> + Copy + Send + Sync + 'static {
    move |it: I| {
        let v: Vec<T> = it.collect();
        call(id, v.hashv());
        v
    }
}
/// the documented meaning of sync `??`: `(|value| { (expr)(&value); value })(value)`
pub fn inspect_ref<I>(f: impl FnOnce(&I), v: I) -> I {
    f(&v);
    v
}
// ---- callbacks and sources for chains over real futures and streams
pub use futures::future::Ready;
/// `A -> ready(B)`
pub fn acb<A: Val, B: Val>(id: u32) -> impl Fn(A) -> Ready<B> + Copy + Send + Sync + 'static {
    move |a: A| futures::future::ready(xcbf::<A, B>(id, a))
}
/// `&A -> ready(bool)` (StreamExt::filter)
pub fn apred<A: Val>(id: u32) -> impl Fn(&A) -> Ready<bool> + Copy + Send + Sync + 'static {
    move |a: &A| futures::future::ready(xpred::<A>(id, a))
}
/// `(A, B) -> ready(C)` (StreamExt::fold / TryStreamExt::try_fold)
pub fn acb2<A: Val, B: Val, C: Val>(id: u32) -> impl Fn(A, B) -> Ready<C> + Copy + Send + Sync + 'static {
    let f = cb2::<A, B, C>(id);
    move |a: A, b: B| futures::future::ready(f(a, b))
}
/// `->` on a future: receives the future itself
pub fn fthen<T: Val + Send, U: Val + Send, F: std::future::Future<Output = T> + Send + 'static>(id: u32) -> impl Fn(F) -> futures::future::BoxFuture<'static, U> + Copy + Send + Sync + 'static {
    move |f: F| {
        use futures::FutureExt;
        f.map(move |t| xcbf::<T, U>(id, t)).boxed()
    }
}
/// maps an item to a stream (for `|> .. ^^>` on streams)
pub fn to_stream<T: Val, U: Val>(id: u32) -> impl Fn(T) -> futures::stream::Iter<std::vec::IntoIter<U>> + Copy + Send + Sync + 'static {
    move |t: T| futures::stream::iter(xcbf::<T, Vec<U>>(id, t))
}
/// a stream operand value (`>@>`, `>^>`)
pub fn sval<T: Val>(id: u32) -> futures::stream::Iter<std::vec::IntoIter<T>> {
    futures::stream::iter(altv::<Vec<T>>(id))
}
/// initial stream / future of the current input
pub fn sinp<T: Val>(k: u32) -> futures::stream::Iter<std::vec::IntoIter<T>> {
    futures::stream::iter(inp::<Vec<T>>(k))
}
pub fn finp<T: Val>(k: u32) -> Ready<T> {
    futures::future::ready(inp::<T>(k))
}

/// block-capture marker
pub fn cap(id: u32) {
    log::ev(id, K::Cap, tag::NONE, 0);
}
/// The reference side of a thread-spawning macro is put under the same documented requirement.
pub fn require_thread<T: Send + 'static>(f: impl FnOnce() -> T + Send + 'static) -> T {
    f()
}
/// The future of a task-spawning macro over `Send + 'static` branches can itself be handed to another
/// task (e.g. as a branch of an enclosing task-spawning macro): it is `Send`.
pub fn require_send<F: std::future::Future + Send>(f: F) -> F {
    f
}
pub fn require_task<T: Send + 'static>(f: impl std::future::Future<Output = T> + Send + 'static) -> impl std::future::Future<Output = T> + Send + 'static {
    f
}

#[macro_export]
macro_rules! mk {
    ($id:expr, $a:ty => $b:ty) => {
        $crate::chainrt::cbf::<$a, $b>($id)
    };
}

/// Drives a future of a *nested* async macro to completion from sync code by polling it with a
/// no-op waker (nested invocations are single-branch: nothing is spawned, nothing ever pends on
/// an external event).
pub fn drive<T>(f: impl std::future::Future<Output = T>) -> T {
    let mut f = Box::pin(f);
    let w = futures::task::noop_waker();
    let mut cx = std::task::Context::from_waker(&w);
    for _ in 0..1_000_000 {
        if let std::task::Poll::Ready(v) = f.as_mut().poll(&mut cx) {
            return v;
        }
    }
    panic!("nested future did not complete");
}

pub fn block_on<T>(f: impl std::future::Future<Output = T>) -> T {
    let rt = tokio::runtime::Builder::new_current_thread().enable_time().build().unwrap();
    let local = tokio::task::LocalSet::new();
    let out = local.block_on(&rt, f);
    drop(local);
    drop(rt);
    out
}

// ------------------------------------------------------------------------------ runner

pub struct ChainCase {
    pub idx: usize,
    /// macro side: evaluates the macro invocation on the current input, returns Debug of the result
    pub mac: fn() -> String,
    /// reference side: the documented method chain with the same operand text
    pub refn: fn() -> String,
    /// number of operators of the program
    pub n_ops: usize,
    /// callbacks of different branches may interleave (thread / task spawning with >= 2 branches)
    pub concurrent: bool,
    /// a try-async macro with several branches: when a branch fails its siblings may never be polled,
    /// so only the result is compared for failing inputs
    pub short_circuit: bool,
    /// control: the same program without the feature the property is about (no `let` names, the
    /// plain macro of the class, Send twins of the values, nested invocations written as plain chains,
    /// captures unwrapped). A difference is attributed to the property only if the control agrees
    /// with the documented chain.
    pub ctl: Option<fn() -> String>,
}

struct Side {
    result: Result<String, String>,
    evs: Vec<(u32, K, u64)>,
    /// (cloned, live after the result was dropped)
    counters: (u64, i64),
}

fn run_side(f: fn() -> String, seed: u64) -> Side {
    log::reset();
    crate::tok::reset_counters();
    set_seed(seed);
    let r = catch_unwind(AssertUnwindSafe(|| f()));
    let evs: Vec<(u32, K, u64)> = log::snapshot().iter().map(|e| (e.id, e.k, e.h)).collect();
    let (_c, _d, cloned, live) = crate::tok::counters();
    Side { result: r.map_err(|p| crate::runner::panic_message(&p)), evs, counters: (cloned, live) }
}

/// reference side of the step stage of C03: a mark in front of every step
pub fn smark(step: u32) {
    log::ev(step, K::Mark, tag::NONE, 0);
}

/// C03 (chain stage): the reference was evaluated step by step across the branches with marks between
/// the steps; the macro's global sequence of events must not go back to an earlier step
fn step_barrier(re: &[(u32, K, u64)], me: &[(u32, K, u64)]) -> Option<String> {
    let relevant = |e: &(u32, K, u64)| matches!(e.1, K::Call | K::Op | K::Cap);
    let mut step = 0usize;
    let mut steps: BTreeMap<u32, Vec<usize>> = BTreeMap::new();
    let mut rseq: BTreeMap<u32, Vec<(u32, K, u64)>> = BTreeMap::new();
    for e in re {
        if e.1 == K::Mark {
            step = e.0 as usize;
        } else if relevant(e) {
            steps.entry(e.0 / 1000).or_default().push(step);
            rseq.entry(e.0 / 1000).or_default().push(*e);
        }
    }
    let mut mseq: BTreeMap<u32, Vec<(u32, K, u64)>> = BTreeMap::new();
    for e in me.iter().filter(|e| relevant(e)) {
        mseq.entry(e.0 / 1000).or_default().push(*e);
    }
    if mseq != rseq {
        // what a branch does differs from the documented chain: not a question of steps (C01 / C11)
        return None;
    }
    let mut at: BTreeMap<u32, usize> = BTreeMap::new();
    let mut cur = 0usize;
    let mut cur_ev: Option<(u32, K, u64)> = None;
    for e in me.iter().filter(|e| relevant(e)) {
        let b = e.0 / 1000;
        let k = at.entry(b).or_insert(0);
        let s = steps[&b][*k];
        *k += 1;
        if s < cur {
            return Some(format!("{:?} #{} of branch {} belongs to step {} of the documented evaluation but ran after {:?} of step {} (macro events {:?})", e.1, e.0, b, s, cur_ev, cur, me.iter().filter(|e| relevant(e)).collect::<Vec<_>>()));
        }
        if s > cur {
            cur = s;
            cur_ev = Some(*e);
        }
    }
    None
}

fn per_branch(evs: &[(u32, K, u64)]) -> BTreeMap<u32, Vec<(u32, K, u64)>> {
    let mut m: BTreeMap<u32, Vec<(u32, K, u64)>> = BTreeMap::new();
    for e in evs {
        m.entry(e.0 / 1000).or_default().push(*e);
    }
    m
}

fn compare(mode: &str, c: &ChainCase, rside: &Side, mside: &Side) -> Option<String> {
    let (rr, re) = (rside.result.clone(), rside.evs.clone());
    let (mr, me) = (mside.result.clone(), mside.evs.clone());
    // the ordered trace: callback invocations and operand evaluations (block captures are hoisted: C11)
    let calls = |v: &[(u32, K, u64)]| -> Vec<(u32, K, u64)> { v.iter().copied().filter(|e| e.1 == K::Call || e.1 == K::Op).collect() };
    let caps = |v: &[(u32, K, u64)]| -> Vec<(u32, K, u64)> { v.iter().copied().filter(|e| e.1 == K::Cap).collect() };
    let multiset_differs = || {
        let mut a: Vec<(u32, K, u64)> = re.clone();
        let mut b: Vec<(u32, K, u64)> = me.clone();
        a.sort();
        b.sort();
        a != b
    };
    let mut detail: Option<String> = None;
    match mode {
                // C10: every expression evaluated exactly as often as in the documented chain; values moved, never cloned
                "C10" | "C11" if c.short_circuit && rr.as_ref().map(|s| s.starts_with("Err(")).unwrap_or(false) => {}
                "C10" => {
                    if multiset_differs() {
                        detail = Some(format!("event multiset differs: macro {:?}, documented chain {:?}", me, re));
                    } else if mside.counters.0 != rside.counters.0 {
                        detail = Some(format!("the macro side made {} clones of counted values, the documented chain {}", mside.counters.0, rside.counters.0));
                    } else if mside.counters.1 != 0 {
                        detail = Some(format!("{} counted values still alive (or dropped twice) after the macro's result was dropped", mside.counters.1));
                    }
                }
                "C03" => {
                    if rr == mr {
                        detail = step_barrier(&re, &me);
                    }
                }
                // C11: block operands evaluated once each, in branch-then-position order
                "C11" => {
                    if per_branch(&caps(&re)) != per_branch(&caps(&me)) {
                        detail = Some(format!("block captures evaluated in a different order / number: macro {:?}, written order {:?}", caps(&me), caps(&re)));
                    }
                }
                _ => {
                    let failed = rr.as_ref().map(|s| s.starts_with("Err(")).unwrap_or(false);
                    if rr != mr {
                        detail = Some(format!("result: macro {:?}, documented chain {:?}", mr, rr));
                    } else if c.short_circuit && failed {
                        // nothing more is promised
                    } else if c.concurrent {
                        if per_branch(&calls(&re)) != per_branch(&calls(&me)) {
                            detail = Some(format!("per-branch trace of callback invocations and operand evaluations differs: macro {:?}, documented chain {:?}", calls(&me), calls(&re)));
                        }
                    } else if calls(&re) != calls(&me) {
                        detail = Some(format!("trace of callback invocations and operand evaluations differs: macro {:?}, documented chain {:?}", calls(&me), calls(&re)));
                    }
                    if detail.is_none() && mode != "CTL" && !(c.short_circuit && failed) && multiset_differs() {
                        detail = Some(format!("event multiset differs: macro {:?}, documented chain {:?}", me, re));
                    }
                }
    }
    detail
}

pub fn main(cases: &[ChainCase]) {
    let seed0: u64 = std::env::var("JV_SEED").ok().and_then(|s| s.parse().ok()).unwrap_or(0);
    let n_inputs: u64 = std::env::var("JV_BUDGET").ok().and_then(|s| s.parse().ok()).unwrap_or(64);
    let only: Option<usize> = std::env::var("JV_ONLY").ok().and_then(|s| s.parse().ok());
    let mode = std::env::var("JV_MODE").unwrap_or_else(|_| "C01".to_string());
    if std::env::var("JV_VERBOSE").is_err() {
        std::panic::set_hook(Box::new(|_| {}));
    }
    for c in cases {
        if only.map(|o| o != c.idx).unwrap_or(false) {
            continue;
        }
        let mut runs = 0u64;
        let mut nontrivial = 0u64;
        let mut violations: Vec<Value> = Vec::new();
        let mut samples: Vec<Value> = Vec::new();
        let mut classes: BTreeMap<String, u64> = BTreeMap::new();
        for k in 0..n_inputs {
            // inputs: a fixed boundary set first (small seeds), then seeds derived from the run seed
            let s = if k < 8 { k } else { mixf(seed0 ^ ((c.idx as u64) << 16), k as u32) };
            let rside = run_side(c.refn, s);
            let mside = run_side(c.mac, s);
            let re = rside.evs.clone();
            let rr = rside.result.clone();
            runs += 1;
            let calls = |v: &[(u32, K, u64)]| -> Vec<(u32, K, u64)> { v.iter().copied().filter(|e| e.1 == K::Call).collect() };
            let caps = |v: &[(u32, K, u64)]| -> Vec<(u32, K, u64)> { v.iter().copied().filter(|e| e.1 == K::Cap).collect() };
            let mut detail: Option<String> = compare(&mode, c, &rside, &mside);
            if detail.is_some() {
                if let Some(ctl) = c.ctl {
                    let cside = run_side(ctl, s);
                    // (the control of C11 has no captures: judge it on result and callback trace)
                    let ctl_mode = if mode == "C11" { "CTL" } else { mode.as_str() };
                    if compare(ctl_mode, c, &rside, &cside).is_some() {
                        // the control disagrees with the documented chain as well: whatever is wrong is
                        // not about this property's feature
                        *classes.entry("difference also in the control: attributed elsewhere".to_string()).or_default() += 1;
                        detail = None;
                    }
                }
            }
            let n_calls = calls(&re).len();
            let n_caps = caps(&re).len();
            let nt = match mode.as_str() {
                "C03" => c.n_ops >= 2 && n_calls >= 1 && re.iter().filter(|e| e.1 == K::Mark).count() >= 2,
                "C11" => n_caps >= 2,
                "C10" => n_calls >= 2 && n_caps >= 1,
                _ => c.n_ops >= 2 && n_calls >= 1,
            };
            if nt {
                nontrivial += 1;
                if samples.is_empty() {
                    samples.push(json!({"input_seed": s, "result": rr.clone().unwrap_or_else(|e| format!("panic: {}", e)), "callbacks_invoked": n_calls}));
                }
            }
            *classes.entry(format!("calls={}", n_calls.min(6))).or_default() += 1;
            if let Some(d) = detail {
                violations.push(json!({"input_seed": s, "oracles": ["differential"], "details": [d]}));
                break;
            }
        }
        println!("{}", json!({"case": c.idx, "runs": runs, "nontrivial": nontrivial, "classes": classes, "samples": samples, "violations": violations, "infra": []}));
    }
}
