//! In-binary runner: for every compiled case, enumerate / sample plans (and schedules),
//! run the real macro expansion, compare with the reference model, print one JSON line
//! per case on stdout. Exit code is always 0 unless the runner itself is broken; the
//! orchestrator reads the violations from the JSON.

use crate::log::{self, Ev};
use crate::model::{self, Expect};
use crate::oracle::{Obs, Violation};
use crate::plan::{self, Plan};
use crate::prog::*;
use crate::sem::Out;
use crate::{sched, tok};
use futures::future::LocalBoxFuture;
use proptest::strategy::{Strategy, ValueTree};
use proptest::test_runner::{Config, RngAlgorithm, TestCaseError, TestError, TestRng, TestRunner};
use serde_json::{json, Value};
use std::collections::BTreeMap;
use std::panic::{catch_unwind, AssertUnwindSafe};

pub enum CaseFn {
    Sync(fn() -> Out),
    Async(fn() -> LocalBoxFuture<'static, Out>),
}

pub struct Case {
    pub idx: usize,
    pub desc: &'static str,
    pub f: CaseFn,
}

pub struct RunResult {
    pub outcome: Option<Out>,
    pub panic_msg: Option<String>,
    pub events: Vec<Ev>,
    /// (created, dropped, cloned, live) after the result was dropped
    pub counters: (u64, u64, u64, i64),
}

pub fn panic_message(p: &Box<dyn std::any::Any + Send>) -> String {
    if let Some(i) = p.downcast_ref::<plan::Injected>() {
        format!("injected#{}", i.0)
    } else if let Some(s) = p.downcast_ref::<&str>() {
        s.to_string()
    } else if let Some(s) = p.downcast_ref::<String>() {
        s.clone()
    } else {
        "<non-string panic payload>".to_string()
    }
}

pub fn reset_all() {
    log::reset();
    tok::reset_counters();
    sched::reset();
}

/// Runs a case to completion with no scheduling control (gates, if any, must be open).
pub fn run_plain(case: &Case, plan: &Plan) -> RunResult {
    reset_all();
    if ALLOC_MODE.load(std::sync::atomic::Ordering::SeqCst) {
        // logging itself must not allocate while allocations are being counted
        log::reserve(8192);
        log::set_quiet(true);
        let _ = crate::alloc::take_report();
    }
    plan::set(plan.clone());
    let r = match &case.f {
        CaseFn::Sync(f) => {
            crate::cb::ASYNC_MODE.store(false, std::sync::atomic::Ordering::SeqCst);
            catch_unwind(AssertUnwindSafe(|| f()))
        }
        CaseFn::Async(f) => {
            crate::cb::ASYNC_MODE.store(true, std::sync::atomic::Ordering::SeqCst);
            catch_unwind(AssertUnwindSafe(|| {
                let rt = tokio::runtime::Builder::new_current_thread().enable_time().build().unwrap();
                let local = tokio::task::LocalSet::new();
                let out = local.block_on(&rt, async { f().await });
                drop(local);
                drop(rt);
                out
            }))
        }
    };
    let events = log::snapshot();
    let (outcome, panic_msg) = match r {
        Ok(o) => (Some(o), None),
        Err(p) => (None, Some(panic_message(&p))),
    };
    let counters = tok::counters();
    RunResult { outcome, panic_msg, events, counters }
}

pub static ALLOC_MODE: std::sync::atomic::AtomicBool = std::sync::atomic::AtomicBool::new(false);

pub fn seed32(seed: u64, salt: u64) -> [u8; 32] {
    let mut s = [0u8; 32];
    let mut x = seed ^ salt.wrapping_mul(0x9E37_79B9_7F4A_7C15);
    for i in 0..4 {
        x = crate::tok::mixf(x, i as u32 + 1);
        s[i * 8..i * 8 + 8].copy_from_slice(&x.to_le_bytes());
    }
    s
}

pub fn new_runner(seed: u64, salt: u64, cases: u32) -> TestRunner {
    let cfg = Config { cases, failure_persistence: None, max_shrink_iters: 2000, ..Config::default() };
    TestRunner::new_with_rng(cfg, TestRng::from_seed(RngAlgorithm::ChaCha, &seed32(seed, salt)))
}

pub struct Mode {
    pub name: String,
    pub seed: u64,
    pub budget: usize,
    pub strict: bool,
}

pub struct CaseReport {
    pub runs: u64,
    pub nontrivial: u64,
    pub classes: BTreeMap<String, u64>,
    pub samples: Vec<Value>,
    pub violations: Vec<Value>,
    pub infra: Vec<String>,
}

impl CaseReport {
    pub fn new() -> Self {
        CaseReport { runs: 0, nontrivial: 0, classes: BTreeMap::new(), samples: vec![], violations: vec![], infra: vec![] }
    }
    pub fn class(&mut self, k: &str) {
        *self.classes.entry(k.to_string()).or_default() += 1;
    }
    pub fn violation(&mut self, plan: &Plan, extra: Value, vs: &[Violation], events: &[Ev]) {
        if self.violations.len() < 3 {
            self.violations.push(json!({
                "plan": plan.to_json(),
                "extra": extra,
                "oracles": vs.iter().map(|v| v.oracle).collect::<Vec<_>>(),
                "details": vs.iter().take(6).map(|v| v.detail.clone()).collect::<Vec<_>>(),
                "events": events.iter().take(200).map(|e| e.short()).collect::<Vec<_>>(),
            }));
        }
    }
}

/// All subsets of `ids` when small, otherwise `budget` sampled subsets (biased to 1-3 members),
/// always including the empty set first.
pub fn plan_space(ids: &[u32], budget: usize, seed: u64) -> (Vec<Vec<u32>>, bool) {
    if ids.len() <= 10 && (1usize << ids.len()) <= budget.max(1) {
        let mut v = Vec::with_capacity(1 << ids.len());
        for m in 0u32..(1u32 << ids.len()) {
            v.push(ids.iter().enumerate().filter(|(i, _)| m >> i & 1 == 1).map(|(_, x)| *x).collect());
        }
        // fewest failures first, so the first failing plan is a minimal one
        v.sort_by_key(|s: &Vec<u32>| s.len());
        (v, true)
    } else {
        let mut runner = new_runner(seed, 0x51ab, 1);
        let n = ids.len();
        let strat = proptest::prop_oneof![
            6 => (1usize..=3.min(n)),
            1 => (1usize..=n),
        ]
        .prop_flat_map(move |k| proptest::sample::subsequence((0..n).collect::<Vec<_>>(), k));
        let mut v: Vec<Vec<u32>> = vec![vec![]];
        let mut seen = std::collections::HashSet::new();
        seen.insert(vec![]);
        let mut tries = 0;
        while v.len() < budget && tries < budget * 4 {
            tries += 1;
            let idxs = strat.new_tree(&mut runner).unwrap().current();
            let s: Vec<u32> = idxs.into_iter().map(|i| ids[i]).collect();
            if seen.insert(s.clone()) {
                v.push(s);
            }
        }
        (v, false)
    }
}

fn check(mode: &str, obs: &Obs, rr: &RunResult) -> Vec<Violation> {
    let mut vs = Vec::new();
    match mode {
        "C04" | "C05" => vs.extend(obs.outcome()),
        "C06" => vs.extend(obs.abort()),
        "C10" => {
            vs.extend(obs.multiset());
            vs.extend(obs.call_sequences());
            let (_c, _d, cloned, live) = rr.counters;
            if cloned != 0 {
                vs.push(Violation { oracle: "moves", detail: format!("{} clones of a value were made", cloned) });
            }
            if live != 0 {
                vs.push(Violation { oracle: "moves", detail: format!("{} tokens still alive (or dropped twice) after the result was dropped", live) });
            }
        }
        "C11" => vs.extend(obs.captures()),
        "C12" => {
            vs.extend(obs.snapshots());
            vs.extend(obs.outcome());
        }
        "C13" => {
            vs.extend(obs.handler());
            vs.extend(obs.outcome());
        }
        "C17" => {
            vs.extend(obs.outcome());
            vs.extend(obs.call_sequences());
        }
        "C03" => vs.extend(obs.barrier_log()),
        "C16" => {
            vs.extend(obs.joiner());
            vs.extend(obs.outcome());
        }
        "C19" => {
            match crate::alloc::take_report() {
                Some(0) => {}
                Some(n) => vs.push(Violation { oracle: "alloc", detail: format!("the macro expression made {} heap allocation calls on the evaluating thread (user code makes none)", n) }),
                None => {
                    if rr.outcome.is_some() {
                        vs.push(Violation { oracle: "alloc", detail: "no allocation measurement was reported".to_string() })
                    }
                }
            }
            // the measurement is only meaningful if the program did what the model says
            vs.extend(obs.outcome());
        }
        "ALL" => {
            vs.extend(obs.outcome());
            vs.extend(obs.call_sequences());
            vs.extend(obs.multiset());
            vs.extend(obs.abort());
            vs.extend(obs.barrier_log());
            vs.extend(obs.captures());
            vs.extend(obs.snapshots());
            vs.extend(obs.handler());
        }
        _ => {}
    }
    vs
}

fn nontrivial(mode: &str, prog: &Prog, plan: &Plan, exp: &Expect) -> bool {
    let n = prog.branches.len();
    let depths = prog.depths();
    let unequal = depths.iter().any(|d| *d != depths[0]);
    match mode {
        "C04" => n >= 2 && unequal,
        "C05" => {
            if plan.bad.len() >= 2 {
                return true;
            }
            // one failure in a non-final step while a lower-numbered branch has finished
            if let Some(fs) = exp.fail_step {
                let fb = exp.failing[0];
                fs + 1 < prog.max_steps() && (0..fb).any(|b| depths[b] <= fs)
            } else {
                false
            }
        }
        "C06" => match exp.fail_step {
            Some(fs) => fs + 1 < prog.max_steps(),
            None => false,
        },
        "C10" => {
            let mut acts = Vec::new();
            for b in &prog.branches {
                for c in &b.steps {
                    model::all_acts(c, &mut acts);
                }
            }
            acts.iter().any(|a| a.op == Op::Inspect) && acts.iter().any(|a| a.cap.is_some())
        }
        "C11" => exp.steps.iter().enumerate().any(|(s, se)| {
            let caps: Vec<usize> = se.caps.iter().filter(|e| e.k == crate::log::K::Cap).filter_map(|e| exp.loc.get(&e.id).map(|l| l.0)).collect();
            let multi = caps.iter().any(|b| *b != caps[0]);
            multi && (s > 0 || true)
        }),
        "C12" => exp.steps.iter().enumerate().any(|(s, se)| {
            se.caps.iter().any(|e| e.k == crate::log::K::Snap) && s >= 1
        }),
        "C13" => prog.handler.as_ref().map(|h| h.pos < n || exp.fail_step.is_some()).unwrap_or(false),
        "C03" => n >= 2 && prog.max_steps() >= 2,
        "C16" => {
            let o = &prog.opts;
            let n_opts = [o.joiner.is_some(), o.lazy.is_some(), o.transpose.is_some(), o.futures_path.is_some()].iter().filter(|x| **x).count();
            let single = (0..prog.max_steps()).any(|s| prog.active(s).len() == 1);
            n_opts >= 2 || (n_opts >= 1 && prog.max_steps() >= 2 && single)
        }
        "C19" => {
            let mut acts = Vec::new();
            for b in &prog.branches {
                for c in &b.steps {
                    model::all_acts(c, &mut acts);
                }
            }
            n >= 2 && prog.max_steps() >= 2 && acts.iter().any(|a| a.op == Op::Inspect)
        }
        _ => n >= 2,
    }
}

fn classes(mode: &str, prog: &Prog, plan: &Plan, exp: &Expect, rep: &mut CaseReport) {
    match mode {
        "C05" | "C06" => {
            rep.class(&format!("bad_ids={}", plan.bad.len().min(4)));
            match exp.fail_step {
                Some(fs) => {
                    rep.class(&format!("fail_step={}", fs.min(5)));
                    rep.class(&format!("failing_branches_in_step={}", exp.failing.len().min(3)));
                    if fs + 1 < prog.max_steps() {
                        rep.class("fail_in_non_final_step");
                    }
                }
                None => rep.class("all_succeed"),
            }
        }
        _ => {}
    }
}

pub fn run_case(case: &Case, mode: &Mode) -> CaseReport {
    let mut rep = CaseReport::new();
    let prog = Prog::from_json(&serde_json::from_str::<Value>(case.desc).expect("bad case description"));
    let kind = prog.kind();
    let m = mode.name.as_str();
    // properties over schedules dispatch on the macro kind
    let sub = |name: &str| Mode { name: name.to_string(), seed: mode.seed, budget: mode.budget, strict: mode.strict };
    match (m, kind.is_async, kind.is_spawn) {
        ("C03", false, true) => return crate::threads::run_case(case, &prog, &sub("C03T")),
        ("C03", true, _) => return crate::asyncx::run_case(case, &prog, &sub("C03A")),
        ("C08", false, true) => return crate::threads::run_case(case, &prog, mode),
        ("C09", true, _) => return crate::asyncx::run_case(case, &prog, mode),
        ("C18", _, _) => return crate::extra::run_case_c18(case, &prog, mode),
        _ => {}
    }
    let ids = model::decision_ids(&prog);
    let (plans, exhaustive): (Vec<Vec<u32>>, bool) = match m {
        "C04" => {
            if kind.is_try {
                (vec![vec![]], true)
            } else {
                let (mut p, _) = plan_space(&ids, 9.min(mode.budget), mode.seed ^ case.idx as u64);
                p.truncate(9);
                (p, false)
            }
        }
        "C05" | "C06" | "C13" => plan_space(&ids, mode.budget, mode.seed ^ case.idx as u64),
        _ => plan_space(&ids, mode.budget.min(64), mode.seed ^ case.idx as u64),
    };
    if exhaustive {
        rep.class("plans_exhaustive");
    } else {
        rep.class("plans_sampled");
    }
    for bad in plans {
        let plan = Plan { bad, panic_at: None, gates: vec![], deep: false };
        let exp = model::interpret(&prog, &plan);
        let rr = run_plain(case, &plan);
        rep.runs += 1;
        let obs = Obs { prog: &prog, exp: &exp, events: &rr.events, outcome: rr.outcome.as_ref() };
        let vs = check(m, &obs, &rr);
        let nt = nontrivial(m, &prog, &plan, &exp);
        if nt {
            rep.nontrivial += 1;
            if rep.samples.is_empty() {
                rep.samples.push(json!({"plan": plan.to_json(), "outcome": rr.outcome.as_ref().map(|o| o.to_json()), "n_events": rr.events.len()}));
            }
        }
        classes(m, &prog, &plan, &exp, &mut rep);
        if !vs.is_empty() {
            // sampled plan spaces: shrink the failing plan greedily (drop failing points one at a time
            // while the violation persists), so that the replay carries a minimal fault set
            let mut plan = plan;
            let mut vs = vs;
            let mut rr = rr;
            if !exhaustive {
                let mut i = 0;
                while i < plan.bad.len() {
                    let mut smaller = plan.clone();
                    smaller.bad.remove(i);
                    let exp2 = model::interpret(&prog, &smaller);
                    let rr2 = run_plain(case, &smaller);
                    rep.runs += 1;
                    let obs2 = Obs { prog: &prog, exp: &exp2, events: &rr2.events, outcome: rr2.outcome.as_ref() };
                    let vs2 = check(m, &obs2, &rr2);
                    if !vs2.is_empty() {
                        plan = smaller;
                        vs = vs2;
                        rr = rr2;
                    } else {
                        i += 1;
                    }
                }
            }
            rep.violation(&plan, json!({"panic": rr.panic_msg, "outcome": rr.outcome.as_ref().map(|o| o.to_json())}), &vs, &rr.events);
            if rep.violations.len() >= 1 && !mode.strict {
                // plans are ordered by size: the first failing plan is minimal; stop here
                break;
            }
        }
    }
    rep
}

pub fn main(cases: &[Case]) {
    let name = std::env::var("JV_MODE").unwrap_or_else(|_| "ALL".to_string());
    let seed: u64 = std::env::var("JV_SEED").ok().and_then(|s| s.parse().ok()).unwrap_or(0);
    let budget: usize = std::env::var("JV_BUDGET").ok().and_then(|s| s.parse().ok()).unwrap_or(256);
    let only: Option<usize> = std::env::var("JV_ONLY").ok().and_then(|s| s.parse().ok());
    let verbose = std::env::var("JV_VERBOSE").is_ok();
    if !verbose {
        std::panic::set_hook(Box::new(|_| {}));
    }
    let mode = Mode { name, seed, budget, strict: false };
    if mode.name == "C19" {
        if !crate::alloc::enabled() {
            println!("{}", json!({"case": 0, "runs": 0, "nontrivial": 0, "classes": {}, "samples": [], "violations": [], "infra": ["built without the counting allocator"]}));
            return;
        }
        ALLOC_MODE.store(true, std::sync::atomic::Ordering::SeqCst);
    }
    // child process of a panic-injection run
    if std::env::var("JV_CHILD").is_ok() {
        let plan = Plan::from_json(&serde_json::from_str::<Value>(&std::env::var("JV_PLAN").expect("JV_PLAN")).expect("JV_PLAN json"));
        for case in cases {
            if only == Some(case.idx) {
                crate::extra::child_main(case, &plan);
            }
        }
        return;
    }
    // C07: digests for the orchestrator's cross-macro comparison
    if mode.name == "C07" {
        for case in cases {
            if only.map(|o| o != case.idx).unwrap_or(false) {
                continue;
            }
            let prog = Prog::from_json(&serde_json::from_str::<Value>(case.desc).expect("bad case description"));
            let r = catch_unwind(AssertUnwindSafe(|| crate::extra::run_case_c07(case, &prog, &mode)));
            match r {
                Ok((rep, extra)) => println!(
                    "{}",
                    json!({"case": case.idx, "runs": rep.runs, "nontrivial": rep.nontrivial, "classes": rep.classes, "samples": rep.samples, "violations": rep.violations, "infra": rep.infra, "c07": extra})
                ),
                Err(p) => println!("{}", json!({"case": case.idx, "runs": 0, "nontrivial": 0, "classes": {}, "samples": [], "violations": [], "infra": [format!("runner panicked: {}", panic_message(&p))]})),
            }
        }
        return;
    }
    // a single replayed plan
    if let Ok(p) = std::env::var("JV_PLAN") {
        let plan = Plan::from_json(&serde_json::from_str::<Value>(&p).expect("JV_PLAN"));
        for case in cases {
            if only.map(|o| o != case.idx).unwrap_or(false) {
                continue;
            }
            let prog = Prog::from_json(&serde_json::from_str::<Value>(case.desc).unwrap());
            let exp = model::interpret(&prog, &plan);
            let rr = run_plain(case, &plan);
            let obs = Obs { prog: &prog, exp: &exp, events: &rr.events, outcome: rr.outcome.as_ref() };
            let vs = check(&mode.name, &obs, &rr);
            println!(
                "{}",
                json!({"case": case.idx, "replay": true, "outcome": rr.outcome.as_ref().map(|o| o.to_json()), "panic": rr.panic_msg,
                       "expected": exp.outcomes.iter().map(|o| o.to_json()).collect::<Vec<_>>(),
                       "violations": vs.iter().map(|v| json!({"oracle": v.oracle, "detail": v.detail})).collect::<Vec<_>>(),
                       "events": rr.events.iter().map(|e| e.short()).collect::<Vec<_>>()})
            );
        }
        return;
    }
    // the failing paths of the thread checks wait for deadlines (seconds per program): once three programs
    // of this binary have shown a violation the remaining ones are skipped (counted as such)
    let mut violating = 0usize;
    for case in cases {
        if only.map(|o| o != case.idx).unwrap_or(false) {
            continue;
        }
        if violating >= 3 && matches!(mode.name.as_str(), "C08" | "C18" | "C03") {
            println!("{}", json!({"case": case.idx, "runs": 0, "nontrivial": 0, "classes": {"skipped: three programs of this binary already violate the property": 1}, "samples": [], "violations": [], "infra": []}));
            continue;
        }
        let r = catch_unwind(AssertUnwindSafe(|| run_case(case, &mode)));
        if let Ok(rep) = &r {
            if !rep.violations.is_empty() {
                violating += 1;
            }
        }
        match r {
            Ok(rep) => println!(
                "{}",
                json!({"case": case.idx, "runs": rep.runs, "nontrivial": rep.nontrivial, "classes": rep.classes,
                       "samples": rep.samples, "violations": rep.violations, "infra": rep.infra})
            ),
            Err(p) => println!("{}", json!({"case": case.idx, "runs": 0, "nontrivial": 0, "classes": {}, "samples": [], "violations": [], "infra": [format!("runner panicked: {}", panic_message(&p))]})),
        }
    }
}
