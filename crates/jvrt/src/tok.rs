//! Move-only tokens whose value encodes the history of callbacks that touched them.

use std::sync::atomic::{AtomicI64, AtomicU64, Ordering};

pub static CREATED: AtomicU64 = AtomicU64::new(0);
pub static DROPPED: AtomicU64 = AtomicU64::new(0);
pub static CLONED: AtomicU64 = AtomicU64::new(0);
pub static LIVE: AtomicI64 = AtomicI64::new(0);

pub fn reset_counters() {
    CREATED.store(0, Ordering::SeqCst);
    DROPPED.store(0, Ordering::SeqCst);
    CLONED.store(0, Ordering::SeqCst);
    LIVE.store(0, Ordering::SeqCst);
}

pub fn counters() -> (u64, u64, u64, i64) {
    (
        CREATED.load(Ordering::SeqCst),
        DROPPED.load(Ordering::SeqCst),
        CLONED.load(Ordering::SeqCst),
        LIVE.load(Ordering::SeqCst),
    )
}

/// splitmix64-style mixing: deterministic, order sensitive.
pub fn mixf(h: u64, id: u32) -> u64 {
    let mut z = h ^ ((id as u64).wrapping_add(0x9E37_79B9_7F4A_7C15)).wrapping_mul(0xBF58_476D_1CE4_E5B9);
    z = z.rotate_left(23).wrapping_add(0x94D0_49BB_1331_11EB ^ (id as u64) << 17);
    z = (z ^ (z >> 30)).wrapping_mul(0xBF58_476D_1CE4_E5B9);
    z = (z ^ (z >> 27)).wrapping_mul(0x94D0_49BB_1331_11EB);
    z ^ (z >> 31)
}

pub fn newh(id: u32) -> u64 {
    mixf(0x0123_4567_89AB_CDEF, id)
}

/// Move-only (`!Clone`), `Send + 'static` token.
pub struct Tok {
    pub h: u64,
}

impl Tok {
    pub fn new(id: u32) -> Tok {
        Tok::raw(newh(id))
    }
    pub fn raw(h: u64) -> Tok {
        CREATED.fetch_add(1, Ordering::SeqCst);
        LIVE.fetch_add(1, Ordering::SeqCst);
        Tok { h }
    }
    pub fn mix(mut self, id: u32) -> Tok {
        self.h = mixf(self.h, id);
        self
    }
    /// method-call form used by `..bump(ID)` inside wrappers
    pub fn bump(self, id: u32) -> Tok {
        crate::cb::on_call(id, crate::log::tag::TOK, self.h);
        self.mix(id)
    }
    /// `..check(ID)` inside a filter wrapper (`&Tok -> bool`)
    pub fn check(&self, id: u32) -> bool {
        crate::cb::on_call(id, crate::log::tag::TOK, self.h);
        !crate::plan::is_bad(id)
    }
}

impl Drop for Tok {
    fn drop(&mut self) {
        DROPPED.fetch_add(1, Ordering::SeqCst);
        LIVE.fetch_sub(1, Ordering::SeqCst);
    }
}

impl std::fmt::Debug for Tok {
    fn fmt(&self, f: &mut std::fmt::Formatter<'_>) -> std::fmt::Result {
        write!(f, "T{:016x}", self.h)
    }
}

/// With the `clonetok` feature the token is `Clone` and counts clones: a correct
/// expansion never clones, so the counter must stay 0.
#[cfg(feature = "clonetok")]
impl Clone for Tok {
    fn clone(&self) -> Self {
        CLONED.fetch_add(1, Ordering::SeqCst);
        Tok::raw(self.h)
    }
}
