//! Counting global allocator (feature `countalloc`): per-thread number of allocation calls, so a
//! generated program can measure what the macro's own code allocates on the evaluating thread.

use std::alloc::{GlobalAlloc, Layout, System};
use std::cell::Cell;
use std::sync::atomic::{AtomicI64, Ordering};

pub struct Counting;

thread_local! {
    static ALLOCS: Cell<u64> = const { Cell::new(0) };
}

unsafe impl GlobalAlloc for Counting {
    unsafe fn alloc(&self, l: Layout) -> *mut u8 {
        let _ = ALLOCS.try_with(|c| c.set(c.get() + 1));
        System.alloc(l)
    }
    unsafe fn dealloc(&self, p: *mut u8, l: Layout) {
        System.dealloc(p, l)
    }
    unsafe fn alloc_zeroed(&self, l: Layout) -> *mut u8 {
        let _ = ALLOCS.try_with(|c| c.set(c.get() + 1));
        System.alloc_zeroed(l)
    }
    unsafe fn realloc(&self, p: *mut u8, l: Layout, n: usize) -> *mut u8 {
        let _ = ALLOCS.try_with(|c| c.set(c.get() + 1));
        System.realloc(p, l, n)
    }
}

#[cfg(feature = "countalloc")]
#[global_allocator]
static GLOBAL: Counting = Counting;

/// allocation calls made by this thread so far
pub fn count() -> u64 {
    ALLOCS.with(|c| c.get())
}

static LAST: AtomicI64 = AtomicI64::new(-1);

/// called by the generated case right after the macro expression
pub fn report(n: u64) {
    LAST.store(n as i64, Ordering::SeqCst);
}
pub fn take_report() -> Option<u64> {
    let v = LAST.swap(-1, Ordering::SeqCst);
    if v < 0 {
        None
    } else {
        Some(v as u64)
    }
}
pub fn enabled() -> bool {
    cfg!(feature = "countalloc")
}
