//! Harness joiners for `custom_joiner(..)` (C16). Every joiner logs its invocation (arity) and
//! marks the evaluation of each argument, so the oracle can check how often it is invoked, with
//! how many branches, and in which order; outputs are tagged so that the values that continue
//! are provably the joiner's output.

use crate::log::{ev, tag, K};

pub const JOINER_ID: u32 = 0x7f00_0000;
pub const JTAG_BASE: u32 = 0x4a00;

/// joiner invoked with `n` arguments
pub fn enter(n: usize) {
    ev(JOINER_ID, K::Joiner, 0, n as u64);
}
/// argument / thunk `p` is about to be evaluated
pub fn mark(p: usize) {
    ev(JOINER_ID, K::Joiner, 1, p as u64);
}
/// all arguments evaluated
pub fn leave() {
    ev(JOINER_ID, K::Joiner, 2, 0);
}

/// tags a joined element with its position (identity for thread handles)
pub trait JTag: Sized {
    fn jtag(self, p: usize) -> Self;
}
impl JTag for Result<crate::tok::Tok, crate::tok::Tok> {
    fn jtag(mut self, p: usize) -> Self {
        crate::cb::Wv::touch(&mut self, JTAG_BASE + p as u32);
        self
    }
}
impl JTag for Option<crate::tok::Tok> {
    fn jtag(mut self, p: usize) -> Self {
        crate::cb::Wv::touch(&mut self, JTAG_BASE + p as u32);
        self
    }
}
impl<T> JTag for std::thread::JoinHandle<T> {
    fn jtag(self, _p: usize) -> Self {
        self
    }
}

/// tags the output of a future
pub fn atag<F, W>(p: usize, f: F) -> impl std::future::Future<Output = W>
where
    F: std::future::Future<Output = W>,
    W: JTag,
{
    use futures::FutureExt;
    f.map(move |w| w.jtag(p))
}

/// transposition used by the self-transposing joiner
pub trait Transpose {
    type Out;
    fn transpose(self) -> Self::Out;
}

impl<E, T0, T1> Transpose for (Result<T0, E>, Result<T1, E>,) {
    type Out = Result<(T0, T1,), E>;
    fn transpose(self) -> Self::Out {
        let (v0, v1,) = self;
        Ok((v0?, v1?,))
    }
}

impl<E, T0, T1, T2> Transpose for (Result<T0, E>, Result<T1, E>, Result<T2, E>,) {
    type Out = Result<(T0, T1, T2,), E>;
    fn transpose(self) -> Self::Out {
        let (v0, v1, v2,) = self;
        Ok((v0?, v1?, v2?,))
    }
}

impl<E, T0, T1, T2, T3> Transpose for (Result<T0, E>, Result<T1, E>, Result<T2, E>, Result<T3, E>,) {
    type Out = Result<(T0, T1, T2, T3,), E>;
    fn transpose(self) -> Self::Out {
        let (v0, v1, v2, v3,) = self;
        Ok((v0?, v1?, v2?, v3?,))
    }
}

impl<E, T0, T1, T2, T3, T4> Transpose for (Result<T0, E>, Result<T1, E>, Result<T2, E>, Result<T3, E>, Result<T4, E>,) {
    type Out = Result<(T0, T1, T2, T3, T4,), E>;
    fn transpose(self) -> Self::Out {
        let (v0, v1, v2, v3, v4,) = self;
        Ok((v0?, v1?, v2?, v3?, v4?,))
    }
}

impl<E, T0, T1, T2, T3, T4, T5> Transpose for (Result<T0, E>, Result<T1, E>, Result<T2, E>, Result<T3, E>, Result<T4, E>, Result<T5, E>,) {
    type Out = Result<(T0, T1, T2, T3, T4, T5,), E>;
    fn transpose(self) -> Self::Out {
        let (v0, v1, v2, v3, v4, v5,) = self;
        Ok((v0?, v1?, v2?, v3?, v4?, v5?,))
    }
}

impl<E, T0, T1, T2, T3, T4, T5, T6> Transpose for (Result<T0, E>, Result<T1, E>, Result<T2, E>, Result<T3, E>, Result<T4, E>, Result<T5, E>, Result<T6, E>,) {
    type Out = Result<(T0, T1, T2, T3, T4, T5, T6,), E>;
    fn transpose(self) -> Self::Out {
        let (v0, v1, v2, v3, v4, v5, v6,) = self;
        Ok((v0?, v1?, v2?, v3?, v4?, v5?, v6?,))
    }
}

impl<E, T0, T1, T2, T3, T4, T5, T6, T7> Transpose for (Result<T0, E>, Result<T1, E>, Result<T2, E>, Result<T3, E>, Result<T4, E>, Result<T5, E>, Result<T6, E>, Result<T7, E>,) {
    type Out = Result<(T0, T1, T2, T3, T4, T5, T6, T7,), E>;
    fn transpose(self) -> Self::Out {
        let (v0, v1, v2, v3, v4, v5, v6, v7,) = self;
        Ok((v0?, v1?, v2?, v3?, v4?, v5?, v6?, v7?,))
    }
}

/// eager joiner: `custom_joiner(jvrt::jv_join!)`
#[macro_export]
macro_rules! jv_join {
    ($e0:expr) => {{
        $crate::joiners::enter(1);
        $crate::joiners::mark(0);
        let __jr = $e0;
        $crate::joiners::leave();
        __jr
    }};
    ($e0:expr, $e1:expr) => {{
        $crate::joiners::enter(2);
        let __jr = ({ $crate::joiners::mark(0); $crate::joiners::JTag::jtag($e0, 0) }, { $crate::joiners::mark(1); $crate::joiners::JTag::jtag($e1, 1) },);
        $crate::joiners::leave();
        __jr
    }};
    ($e0:expr, $e1:expr, $e2:expr) => {{
        $crate::joiners::enter(3);
        let __jr = ({ $crate::joiners::mark(0); $crate::joiners::JTag::jtag($e0, 0) }, { $crate::joiners::mark(1); $crate::joiners::JTag::jtag($e1, 1) }, { $crate::joiners::mark(2); $crate::joiners::JTag::jtag($e2, 2) },);
        $crate::joiners::leave();
        __jr
    }};
    ($e0:expr, $e1:expr, $e2:expr, $e3:expr) => {{
        $crate::joiners::enter(4);
        let __jr = ({ $crate::joiners::mark(0); $crate::joiners::JTag::jtag($e0, 0) }, { $crate::joiners::mark(1); $crate::joiners::JTag::jtag($e1, 1) }, { $crate::joiners::mark(2); $crate::joiners::JTag::jtag($e2, 2) }, { $crate::joiners::mark(3); $crate::joiners::JTag::jtag($e3, 3) },);
        $crate::joiners::leave();
        __jr
    }};
    ($e0:expr, $e1:expr, $e2:expr, $e3:expr, $e4:expr) => {{
        $crate::joiners::enter(5);
        let __jr = ({ $crate::joiners::mark(0); $crate::joiners::JTag::jtag($e0, 0) }, { $crate::joiners::mark(1); $crate::joiners::JTag::jtag($e1, 1) }, { $crate::joiners::mark(2); $crate::joiners::JTag::jtag($e2, 2) }, { $crate::joiners::mark(3); $crate::joiners::JTag::jtag($e3, 3) }, { $crate::joiners::mark(4); $crate::joiners::JTag::jtag($e4, 4) },);
        $crate::joiners::leave();
        __jr
    }};
    ($e0:expr, $e1:expr, $e2:expr, $e3:expr, $e4:expr, $e5:expr) => {{
        $crate::joiners::enter(6);
        let __jr = ({ $crate::joiners::mark(0); $crate::joiners::JTag::jtag($e0, 0) }, { $crate::joiners::mark(1); $crate::joiners::JTag::jtag($e1, 1) }, { $crate::joiners::mark(2); $crate::joiners::JTag::jtag($e2, 2) }, { $crate::joiners::mark(3); $crate::joiners::JTag::jtag($e3, 3) }, { $crate::joiners::mark(4); $crate::joiners::JTag::jtag($e4, 4) }, { $crate::joiners::mark(5); $crate::joiners::JTag::jtag($e5, 5) },);
        $crate::joiners::leave();
        __jr
    }};
    ($e0:expr, $e1:expr, $e2:expr, $e3:expr, $e4:expr, $e5:expr, $e6:expr) => {{
        $crate::joiners::enter(7);
        let __jr = ({ $crate::joiners::mark(0); $crate::joiners::JTag::jtag($e0, 0) }, { $crate::joiners::mark(1); $crate::joiners::JTag::jtag($e1, 1) }, { $crate::joiners::mark(2); $crate::joiners::JTag::jtag($e2, 2) }, { $crate::joiners::mark(3); $crate::joiners::JTag::jtag($e3, 3) }, { $crate::joiners::mark(4); $crate::joiners::JTag::jtag($e4, 4) }, { $crate::joiners::mark(5); $crate::joiners::JTag::jtag($e5, 5) }, { $crate::joiners::mark(6); $crate::joiners::JTag::jtag($e6, 6) },);
        $crate::joiners::leave();
        __jr
    }};
    ($e0:expr, $e1:expr, $e2:expr, $e3:expr, $e4:expr, $e5:expr, $e6:expr, $e7:expr) => {{
        $crate::joiners::enter(8);
        let __jr = ({ $crate::joiners::mark(0); $crate::joiners::JTag::jtag($e0, 0) }, { $crate::joiners::mark(1); $crate::joiners::JTag::jtag($e1, 1) }, { $crate::joiners::mark(2); $crate::joiners::JTag::jtag($e2, 2) }, { $crate::joiners::mark(3); $crate::joiners::JTag::jtag($e3, 3) }, { $crate::joiners::mark(4); $crate::joiners::JTag::jtag($e4, 4) }, { $crate::joiners::mark(5); $crate::joiners::JTag::jtag($e5, 5) }, { $crate::joiners::mark(6); $crate::joiners::JTag::jtag($e6, 6) }, { $crate::joiners::mark(7); $crate::joiners::JTag::jtag($e7, 7) },);
        $crate::joiners::leave();
        __jr
    }};
}

/// lazy joiner: receives zero-argument closures and calls them in *reverse* order
#[macro_export]
macro_rules! jv_join_lazy {
    ($e0:expr) => {{
        let __t0 = $e0;
        $crate::joiners::enter(1);
        $crate::joiners::mark(0);
        let __r0 = __t0();
        $crate::joiners::leave();
        __r0
    }};
    ($e0:expr, $e1:expr) => {{
        let (__t0, __t1,) = ($e0, $e1,);
        $crate::joiners::enter(2);
        $crate::joiners::mark(1);
        let __r1 = $crate::joiners::JTag::jtag(__t1(), 1);
        $crate::joiners::mark(0);
        let __r0 = $crate::joiners::JTag::jtag(__t0(), 0);
        $crate::joiners::leave();
        (__r0, __r1,)
    }};
    ($e0:expr, $e1:expr, $e2:expr) => {{
        let (__t0, __t1, __t2,) = ($e0, $e1, $e2,);
        $crate::joiners::enter(3);
        $crate::joiners::mark(2);
        let __r2 = $crate::joiners::JTag::jtag(__t2(), 2);
        $crate::joiners::mark(1);
        let __r1 = $crate::joiners::JTag::jtag(__t1(), 1);
        $crate::joiners::mark(0);
        let __r0 = $crate::joiners::JTag::jtag(__t0(), 0);
        $crate::joiners::leave();
        (__r0, __r1, __r2,)
    }};
    ($e0:expr, $e1:expr, $e2:expr, $e3:expr) => {{
        let (__t0, __t1, __t2, __t3,) = ($e0, $e1, $e2, $e3,);
        $crate::joiners::enter(4);
        $crate::joiners::mark(3);
        let __r3 = $crate::joiners::JTag::jtag(__t3(), 3);
        $crate::joiners::mark(2);
        let __r2 = $crate::joiners::JTag::jtag(__t2(), 2);
        $crate::joiners::mark(1);
        let __r1 = $crate::joiners::JTag::jtag(__t1(), 1);
        $crate::joiners::mark(0);
        let __r0 = $crate::joiners::JTag::jtag(__t0(), 0);
        $crate::joiners::leave();
        (__r0, __r1, __r2, __r3,)
    }};
    ($e0:expr, $e1:expr, $e2:expr, $e3:expr, $e4:expr) => {{
        let (__t0, __t1, __t2, __t3, __t4,) = ($e0, $e1, $e2, $e3, $e4,);
        $crate::joiners::enter(5);
        $crate::joiners::mark(4);
        let __r4 = $crate::joiners::JTag::jtag(__t4(), 4);
        $crate::joiners::mark(3);
        let __r3 = $crate::joiners::JTag::jtag(__t3(), 3);
        $crate::joiners::mark(2);
        let __r2 = $crate::joiners::JTag::jtag(__t2(), 2);
        $crate::joiners::mark(1);
        let __r1 = $crate::joiners::JTag::jtag(__t1(), 1);
        $crate::joiners::mark(0);
        let __r0 = $crate::joiners::JTag::jtag(__t0(), 0);
        $crate::joiners::leave();
        (__r0, __r1, __r2, __r3, __r4,)
    }};
    ($e0:expr, $e1:expr, $e2:expr, $e3:expr, $e4:expr, $e5:expr) => {{
        let (__t0, __t1, __t2, __t3, __t4, __t5,) = ($e0, $e1, $e2, $e3, $e4, $e5,);
        $crate::joiners::enter(6);
        $crate::joiners::mark(5);
        let __r5 = $crate::joiners::JTag::jtag(__t5(), 5);
        $crate::joiners::mark(4);
        let __r4 = $crate::joiners::JTag::jtag(__t4(), 4);
        $crate::joiners::mark(3);
        let __r3 = $crate::joiners::JTag::jtag(__t3(), 3);
        $crate::joiners::mark(2);
        let __r2 = $crate::joiners::JTag::jtag(__t2(), 2);
        $crate::joiners::mark(1);
        let __r1 = $crate::joiners::JTag::jtag(__t1(), 1);
        $crate::joiners::mark(0);
        let __r0 = $crate::joiners::JTag::jtag(__t0(), 0);
        $crate::joiners::leave();
        (__r0, __r1, __r2, __r3, __r4, __r5,)
    }};
    ($e0:expr, $e1:expr, $e2:expr, $e3:expr, $e4:expr, $e5:expr, $e6:expr) => {{
        let (__t0, __t1, __t2, __t3, __t4, __t5, __t6,) = ($e0, $e1, $e2, $e3, $e4, $e5, $e6,);
        $crate::joiners::enter(7);
        $crate::joiners::mark(6);
        let __r6 = $crate::joiners::JTag::jtag(__t6(), 6);
        $crate::joiners::mark(5);
        let __r5 = $crate::joiners::JTag::jtag(__t5(), 5);
        $crate::joiners::mark(4);
        let __r4 = $crate::joiners::JTag::jtag(__t4(), 4);
        $crate::joiners::mark(3);
        let __r3 = $crate::joiners::JTag::jtag(__t3(), 3);
        $crate::joiners::mark(2);
        let __r2 = $crate::joiners::JTag::jtag(__t2(), 2);
        $crate::joiners::mark(1);
        let __r1 = $crate::joiners::JTag::jtag(__t1(), 1);
        $crate::joiners::mark(0);
        let __r0 = $crate::joiners::JTag::jtag(__t0(), 0);
        $crate::joiners::leave();
        (__r0, __r1, __r2, __r3, __r4, __r5, __r6,)
    }};
    ($e0:expr, $e1:expr, $e2:expr, $e3:expr, $e4:expr, $e5:expr, $e6:expr, $e7:expr) => {{
        let (__t0, __t1, __t2, __t3, __t4, __t5, __t6, __t7,) = ($e0, $e1, $e2, $e3, $e4, $e5, $e6, $e7,);
        $crate::joiners::enter(8);
        $crate::joiners::mark(7);
        let __r7 = $crate::joiners::JTag::jtag(__t7(), 7);
        $crate::joiners::mark(6);
        let __r6 = $crate::joiners::JTag::jtag(__t6(), 6);
        $crate::joiners::mark(5);
        let __r5 = $crate::joiners::JTag::jtag(__t5(), 5);
        $crate::joiners::mark(4);
        let __r4 = $crate::joiners::JTag::jtag(__t4(), 4);
        $crate::joiners::mark(3);
        let __r3 = $crate::joiners::JTag::jtag(__t3(), 3);
        $crate::joiners::mark(2);
        let __r2 = $crate::joiners::JTag::jtag(__t2(), 2);
        $crate::joiners::mark(1);
        let __r1 = $crate::joiners::JTag::jtag(__t1(), 1);
        $crate::joiners::mark(0);
        let __r0 = $crate::joiners::JTag::jtag(__t0(), 0);
        $crate::joiners::leave();
        (__r0, __r1, __r2, __r3, __r4, __r5, __r6, __r7,)
    }};
}

/// self-transposing joiner for `transpose_results(false)`: returns Result of tuple
#[macro_export]
macro_rules! jv_tjoin {
    ($e0:expr, $e1:expr) => {{
        $crate::joiners::enter(2);
        let __jr = ({ $crate::joiners::mark(0); $crate::joiners::JTag::jtag($e0, 0) }, { $crate::joiners::mark(1); $crate::joiners::JTag::jtag($e1, 1) },);
        $crate::joiners::leave();
        $crate::joiners::Transpose::transpose(__jr)
    }};
    ($e0:expr, $e1:expr, $e2:expr) => {{
        $crate::joiners::enter(3);
        let __jr = ({ $crate::joiners::mark(0); $crate::joiners::JTag::jtag($e0, 0) }, { $crate::joiners::mark(1); $crate::joiners::JTag::jtag($e1, 1) }, { $crate::joiners::mark(2); $crate::joiners::JTag::jtag($e2, 2) },);
        $crate::joiners::leave();
        $crate::joiners::Transpose::transpose(__jr)
    }};
    ($e0:expr, $e1:expr, $e2:expr, $e3:expr) => {{
        $crate::joiners::enter(4);
        let __jr = ({ $crate::joiners::mark(0); $crate::joiners::JTag::jtag($e0, 0) }, { $crate::joiners::mark(1); $crate::joiners::JTag::jtag($e1, 1) }, { $crate::joiners::mark(2); $crate::joiners::JTag::jtag($e2, 2) }, { $crate::joiners::mark(3); $crate::joiners::JTag::jtag($e3, 3) },);
        $crate::joiners::leave();
        $crate::joiners::Transpose::transpose(__jr)
    }};
    ($e0:expr, $e1:expr, $e2:expr, $e3:expr, $e4:expr) => {{
        $crate::joiners::enter(5);
        let __jr = ({ $crate::joiners::mark(0); $crate::joiners::JTag::jtag($e0, 0) }, { $crate::joiners::mark(1); $crate::joiners::JTag::jtag($e1, 1) }, { $crate::joiners::mark(2); $crate::joiners::JTag::jtag($e2, 2) }, { $crate::joiners::mark(3); $crate::joiners::JTag::jtag($e3, 3) }, { $crate::joiners::mark(4); $crate::joiners::JTag::jtag($e4, 4) },);
        $crate::joiners::leave();
        $crate::joiners::Transpose::transpose(__jr)
    }};
    ($e0:expr, $e1:expr, $e2:expr, $e3:expr, $e4:expr, $e5:expr) => {{
        $crate::joiners::enter(6);
        let __jr = ({ $crate::joiners::mark(0); $crate::joiners::JTag::jtag($e0, 0) }, { $crate::joiners::mark(1); $crate::joiners::JTag::jtag($e1, 1) }, { $crate::joiners::mark(2); $crate::joiners::JTag::jtag($e2, 2) }, { $crate::joiners::mark(3); $crate::joiners::JTag::jtag($e3, 3) }, { $crate::joiners::mark(4); $crate::joiners::JTag::jtag($e4, 4) }, { $crate::joiners::mark(5); $crate::joiners::JTag::jtag($e5, 5) },);
        $crate::joiners::leave();
        $crate::joiners::Transpose::transpose(__jr)
    }};
    ($e0:expr, $e1:expr, $e2:expr, $e3:expr, $e4:expr, $e5:expr, $e6:expr) => {{
        $crate::joiners::enter(7);
        let __jr = ({ $crate::joiners::mark(0); $crate::joiners::JTag::jtag($e0, 0) }, { $crate::joiners::mark(1); $crate::joiners::JTag::jtag($e1, 1) }, { $crate::joiners::mark(2); $crate::joiners::JTag::jtag($e2, 2) }, { $crate::joiners::mark(3); $crate::joiners::JTag::jtag($e3, 3) }, { $crate::joiners::mark(4); $crate::joiners::JTag::jtag($e4, 4) }, { $crate::joiners::mark(5); $crate::joiners::JTag::jtag($e5, 5) }, { $crate::joiners::mark(6); $crate::joiners::JTag::jtag($e6, 6) },);
        $crate::joiners::leave();
        $crate::joiners::Transpose::transpose(__jr)
    }};
    ($e0:expr, $e1:expr, $e2:expr, $e3:expr, $e4:expr, $e5:expr, $e6:expr, $e7:expr) => {{
        $crate::joiners::enter(8);
        let __jr = ({ $crate::joiners::mark(0); $crate::joiners::JTag::jtag($e0, 0) }, { $crate::joiners::mark(1); $crate::joiners::JTag::jtag($e1, 1) }, { $crate::joiners::mark(2); $crate::joiners::JTag::jtag($e2, 2) }, { $crate::joiners::mark(3); $crate::joiners::JTag::jtag($e3, 3) }, { $crate::joiners::mark(4); $crate::joiners::JTag::jtag($e4, 4) }, { $crate::joiners::mark(5); $crate::joiners::JTag::jtag($e5, 5) }, { $crate::joiners::mark(6); $crate::joiners::JTag::jtag($e6, 6) }, { $crate::joiners::mark(7); $crate::joiners::JTag::jtag($e7, 7) },);
        $crate::joiners::leave();
        $crate::joiners::Transpose::transpose(__jr)
    }};
}

/// async joiner (awaits internally, like futures::join!)
#[macro_export]
macro_rules! jv_ajoin {
    ($e0:expr, $e1:expr) => {{
        $crate::joiners::enter(2);
        $crate::joiners::mark(0);
        let __f0 = $crate::joiners::atag(0, $e0);
        $crate::joiners::mark(1);
        let __f1 = $crate::joiners::atag(1, $e1);
        $crate::joiners::leave();
        $crate::__futures::join!(__f0, __f1)
    }};
    ($e0:expr, $e1:expr, $e2:expr) => {{
        $crate::joiners::enter(3);
        $crate::joiners::mark(0);
        let __f0 = $crate::joiners::atag(0, $e0);
        $crate::joiners::mark(1);
        let __f1 = $crate::joiners::atag(1, $e1);
        $crate::joiners::mark(2);
        let __f2 = $crate::joiners::atag(2, $e2);
        $crate::joiners::leave();
        $crate::__futures::join!(__f0, __f1, __f2)
    }};
    ($e0:expr, $e1:expr, $e2:expr, $e3:expr) => {{
        $crate::joiners::enter(4);
        $crate::joiners::mark(0);
        let __f0 = $crate::joiners::atag(0, $e0);
        $crate::joiners::mark(1);
        let __f1 = $crate::joiners::atag(1, $e1);
        $crate::joiners::mark(2);
        let __f2 = $crate::joiners::atag(2, $e2);
        $crate::joiners::mark(3);
        let __f3 = $crate::joiners::atag(3, $e3);
        $crate::joiners::leave();
        $crate::__futures::join!(__f0, __f1, __f2, __f3)
    }};
    ($e0:expr, $e1:expr, $e2:expr, $e3:expr, $e4:expr) => {{
        $crate::joiners::enter(5);
        $crate::joiners::mark(0);
        let __f0 = $crate::joiners::atag(0, $e0);
        $crate::joiners::mark(1);
        let __f1 = $crate::joiners::atag(1, $e1);
        $crate::joiners::mark(2);
        let __f2 = $crate::joiners::atag(2, $e2);
        $crate::joiners::mark(3);
        let __f3 = $crate::joiners::atag(3, $e3);
        $crate::joiners::mark(4);
        let __f4 = $crate::joiners::atag(4, $e4);
        $crate::joiners::leave();
        $crate::__futures::join!(__f0, __f1, __f2, __f3, __f4)
    }};
    ($e0:expr, $e1:expr, $e2:expr, $e3:expr, $e4:expr, $e5:expr) => {{
        $crate::joiners::enter(6);
        $crate::joiners::mark(0);
        let __f0 = $crate::joiners::atag(0, $e0);
        $crate::joiners::mark(1);
        let __f1 = $crate::joiners::atag(1, $e1);
        $crate::joiners::mark(2);
        let __f2 = $crate::joiners::atag(2, $e2);
        $crate::joiners::mark(3);
        let __f3 = $crate::joiners::atag(3, $e3);
        $crate::joiners::mark(4);
        let __f4 = $crate::joiners::atag(4, $e4);
        $crate::joiners::mark(5);
        let __f5 = $crate::joiners::atag(5, $e5);
        $crate::joiners::leave();
        $crate::__futures::join!(__f0, __f1, __f2, __f3, __f4, __f5)
    }};
    ($e0:expr, $e1:expr, $e2:expr, $e3:expr, $e4:expr, $e5:expr, $e6:expr) => {{
        $crate::joiners::enter(7);
        $crate::joiners::mark(0);
        let __f0 = $crate::joiners::atag(0, $e0);
        $crate::joiners::mark(1);
        let __f1 = $crate::joiners::atag(1, $e1);
        $crate::joiners::mark(2);
        let __f2 = $crate::joiners::atag(2, $e2);
        $crate::joiners::mark(3);
        let __f3 = $crate::joiners::atag(3, $e3);
        $crate::joiners::mark(4);
        let __f4 = $crate::joiners::atag(4, $e4);
        $crate::joiners::mark(5);
        let __f5 = $crate::joiners::atag(5, $e5);
        $crate::joiners::mark(6);
        let __f6 = $crate::joiners::atag(6, $e6);
        $crate::joiners::leave();
        $crate::__futures::join!(__f0, __f1, __f2, __f3, __f4, __f5, __f6)
    }};
    ($e0:expr, $e1:expr, $e2:expr, $e3:expr, $e4:expr, $e5:expr, $e6:expr, $e7:expr) => {{
        $crate::joiners::enter(8);
        $crate::joiners::mark(0);
        let __f0 = $crate::joiners::atag(0, $e0);
        $crate::joiners::mark(1);
        let __f1 = $crate::joiners::atag(1, $e1);
        $crate::joiners::mark(2);
        let __f2 = $crate::joiners::atag(2, $e2);
        $crate::joiners::mark(3);
        let __f3 = $crate::joiners::atag(3, $e3);
        $crate::joiners::mark(4);
        let __f4 = $crate::joiners::atag(4, $e4);
        $crate::joiners::mark(5);
        let __f5 = $crate::joiners::atag(5, $e5);
        $crate::joiners::mark(6);
        let __f6 = $crate::joiners::atag(6, $e6);
        $crate::joiners::mark(7);
        let __f7 = $crate::joiners::atag(7, $e7);
        $crate::joiners::leave();
        $crate::__futures::join!(__f0, __f1, __f2, __f3, __f4, __f5, __f6, __f7)
    }};
}

/// async try joiner (returns Result of tuple, like futures::try_join!)
#[macro_export]
macro_rules! jv_atry {
    ($e0:expr, $e1:expr) => {{
        $crate::joiners::enter(2);
        $crate::joiners::mark(0);
        let __f0 = $crate::joiners::atag(0, $e0);
        $crate::joiners::mark(1);
        let __f1 = $crate::joiners::atag(1, $e1);
        $crate::joiners::leave();
        $crate::__futures::try_join!(__f0, __f1)
    }};
    ($e0:expr, $e1:expr, $e2:expr) => {{
        $crate::joiners::enter(3);
        $crate::joiners::mark(0);
        let __f0 = $crate::joiners::atag(0, $e0);
        $crate::joiners::mark(1);
        let __f1 = $crate::joiners::atag(1, $e1);
        $crate::joiners::mark(2);
        let __f2 = $crate::joiners::atag(2, $e2);
        $crate::joiners::leave();
        $crate::__futures::try_join!(__f0, __f1, __f2)
    }};
    ($e0:expr, $e1:expr, $e2:expr, $e3:expr) => {{
        $crate::joiners::enter(4);
        $crate::joiners::mark(0);
        let __f0 = $crate::joiners::atag(0, $e0);
        $crate::joiners::mark(1);
        let __f1 = $crate::joiners::atag(1, $e1);
        $crate::joiners::mark(2);
        let __f2 = $crate::joiners::atag(2, $e2);
        $crate::joiners::mark(3);
        let __f3 = $crate::joiners::atag(3, $e3);
        $crate::joiners::leave();
        $crate::__futures::try_join!(__f0, __f1, __f2, __f3)
    }};
    ($e0:expr, $e1:expr, $e2:expr, $e3:expr, $e4:expr) => {{
        $crate::joiners::enter(5);
        $crate::joiners::mark(0);
        let __f0 = $crate::joiners::atag(0, $e0);
        $crate::joiners::mark(1);
        let __f1 = $crate::joiners::atag(1, $e1);
        $crate::joiners::mark(2);
        let __f2 = $crate::joiners::atag(2, $e2);
        $crate::joiners::mark(3);
        let __f3 = $crate::joiners::atag(3, $e3);
        $crate::joiners::mark(4);
        let __f4 = $crate::joiners::atag(4, $e4);
        $crate::joiners::leave();
        $crate::__futures::try_join!(__f0, __f1, __f2, __f3, __f4)
    }};
    ($e0:expr, $e1:expr, $e2:expr, $e3:expr, $e4:expr, $e5:expr) => {{
        $crate::joiners::enter(6);
        $crate::joiners::mark(0);
        let __f0 = $crate::joiners::atag(0, $e0);
        $crate::joiners::mark(1);
        let __f1 = $crate::joiners::atag(1, $e1);
        $crate::joiners::mark(2);
        let __f2 = $crate::joiners::atag(2, $e2);
        $crate::joiners::mark(3);
        let __f3 = $crate::joiners::atag(3, $e3);
        $crate::joiners::mark(4);
        let __f4 = $crate::joiners::atag(4, $e4);
        $crate::joiners::mark(5);
        let __f5 = $crate::joiners::atag(5, $e5);
        $crate::joiners::leave();
        $crate::__futures::try_join!(__f0, __f1, __f2, __f3, __f4, __f5)
    }};
    ($e0:expr, $e1:expr, $e2:expr, $e3:expr, $e4:expr, $e5:expr, $e6:expr) => {{
        $crate::joiners::enter(7);
        $crate::joiners::mark(0);
        let __f0 = $crate::joiners::atag(0, $e0);
        $crate::joiners::mark(1);
        let __f1 = $crate::joiners::atag(1, $e1);
        $crate::joiners::mark(2);
        let __f2 = $crate::joiners::atag(2, $e2);
        $crate::joiners::mark(3);
        let __f3 = $crate::joiners::atag(3, $e3);
        $crate::joiners::mark(4);
        let __f4 = $crate::joiners::atag(4, $e4);
        $crate::joiners::mark(5);
        let __f5 = $crate::joiners::atag(5, $e5);
        $crate::joiners::mark(6);
        let __f6 = $crate::joiners::atag(6, $e6);
        $crate::joiners::leave();
        $crate::__futures::try_join!(__f0, __f1, __f2, __f3, __f4, __f5, __f6)
    }};
    ($e0:expr, $e1:expr, $e2:expr, $e3:expr, $e4:expr, $e5:expr, $e6:expr, $e7:expr) => {{
        $crate::joiners::enter(8);
        $crate::joiners::mark(0);
        let __f0 = $crate::joiners::atag(0, $e0);
        $crate::joiners::mark(1);
        let __f1 = $crate::joiners::atag(1, $e1);
        $crate::joiners::mark(2);
        let __f2 = $crate::joiners::atag(2, $e2);
        $crate::joiners::mark(3);
        let __f3 = $crate::joiners::atag(3, $e3);
        $crate::joiners::mark(4);
        let __f4 = $crate::joiners::atag(4, $e4);
        $crate::joiners::mark(5);
        let __f5 = $crate::joiners::atag(5, $e5);
        $crate::joiners::mark(6);
        let __f6 = $crate::joiners::atag(6, $e6);
        $crate::joiners::mark(7);
        let __f7 = $crate::joiners::atag(7, $e7);
        $crate::joiners::leave();
        $crate::__futures::try_join!(__f0, __f1, __f2, __f3, __f4, __f5, __f6, __f7)
    }};
}


/// `futures_crate_path(::jvrt::fx)`: a stand-in for the futures crate whose join! / try_join!
/// log their invocation. The generated crate has no dependency called `futures`, so any
/// hard-coded `::futures` path in the expansion fails to compile.
#[macro_export]
macro_rules! jv_fx_join {
    ($($e:expr),+ $(,)?) => {{
        $crate::log::ev($crate::joiners::JOINER_ID, $crate::log::K::Fx, 0, 0);
        $crate::__futures::join!($($e),+)
    }};
}
#[macro_export]
macro_rules! jv_fx_try_join {
    ($($e:expr),+ $(,)?) => {{
        $crate::log::ev($crate::joiners::JOINER_ID, $crate::log::K::Fx, 1, 0);
        $crate::__futures::try_join!($($e),+)
    }};
}

/// async joiner that awaits its arguments ONE AFTER THE OTHER (for the task-spawning macros: the
/// tasks themselves must still run concurrently)
#[macro_export]
macro_rules! jv_aseq {
    ($e0:expr, $e1:expr) => {{
        $crate::joiners::enter(2);
        $crate::joiners::mark(0);
        let __f0 = $crate::joiners::atag(0, $e0);
        $crate::joiners::mark(1);
        let __f1 = $crate::joiners::atag(1, $e1);
        $crate::joiners::leave();
        let __r0 = __f0.await;
        let __r1 = __f1.await;
        (__r0, __r1,)
    }};
    ($e0:expr, $e1:expr, $e2:expr) => {{
        $crate::joiners::enter(3);
        $crate::joiners::mark(0);
        let __f0 = $crate::joiners::atag(0, $e0);
        $crate::joiners::mark(1);
        let __f1 = $crate::joiners::atag(1, $e1);
        $crate::joiners::mark(2);
        let __f2 = $crate::joiners::atag(2, $e2);
        $crate::joiners::leave();
        let __r0 = __f0.await;
        let __r1 = __f1.await;
        let __r2 = __f2.await;
        (__r0, __r1, __r2,)
    }};
    ($e0:expr, $e1:expr, $e2:expr, $e3:expr) => {{
        $crate::joiners::enter(4);
        $crate::joiners::mark(0);
        let __f0 = $crate::joiners::atag(0, $e0);
        $crate::joiners::mark(1);
        let __f1 = $crate::joiners::atag(1, $e1);
        $crate::joiners::mark(2);
        let __f2 = $crate::joiners::atag(2, $e2);
        $crate::joiners::mark(3);
        let __f3 = $crate::joiners::atag(3, $e3);
        $crate::joiners::leave();
        let __r0 = __f0.await;
        let __r1 = __f1.await;
        let __r2 = __f2.await;
        let __r3 = __f3.await;
        (__r0, __r1, __r2, __r3,)
    }};
    ($e0:expr, $e1:expr, $e2:expr, $e3:expr, $e4:expr) => {{
        $crate::joiners::enter(5);
        $crate::joiners::mark(0);
        let __f0 = $crate::joiners::atag(0, $e0);
        $crate::joiners::mark(1);
        let __f1 = $crate::joiners::atag(1, $e1);
        $crate::joiners::mark(2);
        let __f2 = $crate::joiners::atag(2, $e2);
        $crate::joiners::mark(3);
        let __f3 = $crate::joiners::atag(3, $e3);
        $crate::joiners::mark(4);
        let __f4 = $crate::joiners::atag(4, $e4);
        $crate::joiners::leave();
        let __r0 = __f0.await;
        let __r1 = __f1.await;
        let __r2 = __f2.await;
        let __r3 = __f3.await;
        let __r4 = __f4.await;
        (__r0, __r1, __r2, __r3, __r4,)
    }};
    ($e0:expr, $e1:expr, $e2:expr, $e3:expr, $e4:expr, $e5:expr) => {{
        $crate::joiners::enter(6);
        $crate::joiners::mark(0);
        let __f0 = $crate::joiners::atag(0, $e0);
        $crate::joiners::mark(1);
        let __f1 = $crate::joiners::atag(1, $e1);
        $crate::joiners::mark(2);
        let __f2 = $crate::joiners::atag(2, $e2);
        $crate::joiners::mark(3);
        let __f3 = $crate::joiners::atag(3, $e3);
        $crate::joiners::mark(4);
        let __f4 = $crate::joiners::atag(4, $e4);
        $crate::joiners::mark(5);
        let __f5 = $crate::joiners::atag(5, $e5);
        $crate::joiners::leave();
        let __r0 = __f0.await;
        let __r1 = __f1.await;
        let __r2 = __f2.await;
        let __r3 = __f3.await;
        let __r4 = __f4.await;
        let __r5 = __f5.await;
        (__r0, __r1, __r2, __r3, __r4, __r5,)
    }};
    ($e0:expr, $e1:expr, $e2:expr, $e3:expr, $e4:expr, $e5:expr, $e6:expr) => {{
        $crate::joiners::enter(7);
        $crate::joiners::mark(0);
        let __f0 = $crate::joiners::atag(0, $e0);
        $crate::joiners::mark(1);
        let __f1 = $crate::joiners::atag(1, $e1);
        $crate::joiners::mark(2);
        let __f2 = $crate::joiners::atag(2, $e2);
        $crate::joiners::mark(3);
        let __f3 = $crate::joiners::atag(3, $e3);
        $crate::joiners::mark(4);
        let __f4 = $crate::joiners::atag(4, $e4);
        $crate::joiners::mark(5);
        let __f5 = $crate::joiners::atag(5, $e5);
        $crate::joiners::mark(6);
        let __f6 = $crate::joiners::atag(6, $e6);
        $crate::joiners::leave();
        let __r0 = __f0.await;
        let __r1 = __f1.await;
        let __r2 = __f2.await;
        let __r3 = __f3.await;
        let __r4 = __f4.await;
        let __r5 = __f5.await;
        let __r6 = __f6.await;
        (__r0, __r1, __r2, __r3, __r4, __r5, __r6,)
    }};
    ($e0:expr, $e1:expr, $e2:expr, $e3:expr, $e4:expr, $e5:expr, $e6:expr, $e7:expr) => {{
        $crate::joiners::enter(8);
        $crate::joiners::mark(0);
        let __f0 = $crate::joiners::atag(0, $e0);
        $crate::joiners::mark(1);
        let __f1 = $crate::joiners::atag(1, $e1);
        $crate::joiners::mark(2);
        let __f2 = $crate::joiners::atag(2, $e2);
        $crate::joiners::mark(3);
        let __f3 = $crate::joiners::atag(3, $e3);
        $crate::joiners::mark(4);
        let __f4 = $crate::joiners::atag(4, $e4);
        $crate::joiners::mark(5);
        let __f5 = $crate::joiners::atag(5, $e5);
        $crate::joiners::mark(6);
        let __f6 = $crate::joiners::atag(6, $e6);
        $crate::joiners::mark(7);
        let __f7 = $crate::joiners::atag(7, $e7);
        $crate::joiners::leave();
        let __r0 = __f0.await;
        let __r1 = __f1.await;
        let __r2 = __f2.await;
        let __r3 = __f3.await;
        let __r4 = __f4.await;
        let __r5 = __f5.await;
        let __r6 = __f6.await;
        let __r7 = __f7.await;
        (__r0, __r1, __r2, __r3, __r4, __r5, __r6, __r7,)
    }};
}


/// sequentially awaiting try joiner (returns at the first Err)
#[macro_export]
macro_rules! jv_atryseq {
    ($e0:expr, $e1:expr) => {{
        $crate::joiners::enter(2);
        $crate::joiners::mark(0);
        let __f0 = $crate::joiners::atag(0, $e0);
        $crate::joiners::mark(1);
        let __f1 = $crate::joiners::atag(1, $e1);
        $crate::joiners::leave();
        async move {
            let __r0 = __f0.await?;
            let __r1 = __f1.await?;
            Ok((__r0, __r1,))
        }
        .await
    }};
    ($e0:expr, $e1:expr, $e2:expr) => {{
        $crate::joiners::enter(3);
        $crate::joiners::mark(0);
        let __f0 = $crate::joiners::atag(0, $e0);
        $crate::joiners::mark(1);
        let __f1 = $crate::joiners::atag(1, $e1);
        $crate::joiners::mark(2);
        let __f2 = $crate::joiners::atag(2, $e2);
        $crate::joiners::leave();
        async move {
            let __r0 = __f0.await?;
            let __r1 = __f1.await?;
            let __r2 = __f2.await?;
            Ok((__r0, __r1, __r2,))
        }
        .await
    }};
    ($e0:expr, $e1:expr, $e2:expr, $e3:expr) => {{
        $crate::joiners::enter(4);
        $crate::joiners::mark(0);
        let __f0 = $crate::joiners::atag(0, $e0);
        $crate::joiners::mark(1);
        let __f1 = $crate::joiners::atag(1, $e1);
        $crate::joiners::mark(2);
        let __f2 = $crate::joiners::atag(2, $e2);
        $crate::joiners::mark(3);
        let __f3 = $crate::joiners::atag(3, $e3);
        $crate::joiners::leave();
        async move {
            let __r0 = __f0.await?;
            let __r1 = __f1.await?;
            let __r2 = __f2.await?;
            let __r3 = __f3.await?;
            Ok((__r0, __r1, __r2, __r3,))
        }
        .await
    }};
    ($e0:expr, $e1:expr, $e2:expr, $e3:expr, $e4:expr) => {{
        $crate::joiners::enter(5);
        $crate::joiners::mark(0);
        let __f0 = $crate::joiners::atag(0, $e0);
        $crate::joiners::mark(1);
        let __f1 = $crate::joiners::atag(1, $e1);
        $crate::joiners::mark(2);
        let __f2 = $crate::joiners::atag(2, $e2);
        $crate::joiners::mark(3);
        let __f3 = $crate::joiners::atag(3, $e3);
        $crate::joiners::mark(4);
        let __f4 = $crate::joiners::atag(4, $e4);
        $crate::joiners::leave();
        async move {
            let __r0 = __f0.await?;
            let __r1 = __f1.await?;
            let __r2 = __f2.await?;
            let __r3 = __f3.await?;
            let __r4 = __f4.await?;
            Ok((__r0, __r1, __r2, __r3, __r4,))
        }
        .await
    }};
    ($e0:expr, $e1:expr, $e2:expr, $e3:expr, $e4:expr, $e5:expr) => {{
        $crate::joiners::enter(6);
        $crate::joiners::mark(0);
        let __f0 = $crate::joiners::atag(0, $e0);
        $crate::joiners::mark(1);
        let __f1 = $crate::joiners::atag(1, $e1);
        $crate::joiners::mark(2);
        let __f2 = $crate::joiners::atag(2, $e2);
        $crate::joiners::mark(3);
        let __f3 = $crate::joiners::atag(3, $e3);
        $crate::joiners::mark(4);
        let __f4 = $crate::joiners::atag(4, $e4);
        $crate::joiners::mark(5);
        let __f5 = $crate::joiners::atag(5, $e5);
        $crate::joiners::leave();
        async move {
            let __r0 = __f0.await?;
            let __r1 = __f1.await?;
            let __r2 = __f2.await?;
            let __r3 = __f3.await?;
            let __r4 = __f4.await?;
            let __r5 = __f5.await?;
            Ok((__r0, __r1, __r2, __r3, __r4, __r5,))
        }
        .await
    }};
    ($e0:expr, $e1:expr, $e2:expr, $e3:expr, $e4:expr, $e5:expr, $e6:expr) => {{
        $crate::joiners::enter(7);
        $crate::joiners::mark(0);
        let __f0 = $crate::joiners::atag(0, $e0);
        $crate::joiners::mark(1);
        let __f1 = $crate::joiners::atag(1, $e1);
        $crate::joiners::mark(2);
        let __f2 = $crate::joiners::atag(2, $e2);
        $crate::joiners::mark(3);
        let __f3 = $crate::joiners::atag(3, $e3);
        $crate::joiners::mark(4);
        let __f4 = $crate::joiners::atag(4, $e4);
        $crate::joiners::mark(5);
        let __f5 = $crate::joiners::atag(5, $e5);
        $crate::joiners::mark(6);
        let __f6 = $crate::joiners::atag(6, $e6);
        $crate::joiners::leave();
        async move {
            let __r0 = __f0.await?;
            let __r1 = __f1.await?;
            let __r2 = __f2.await?;
            let __r3 = __f3.await?;
            let __r4 = __f4.await?;
            let __r5 = __f5.await?;
            let __r6 = __f6.await?;
            Ok((__r0, __r1, __r2, __r3, __r4, __r5, __r6,))
        }
        .await
    }};
    ($e0:expr, $e1:expr, $e2:expr, $e3:expr, $e4:expr, $e5:expr, $e6:expr, $e7:expr) => {{
        $crate::joiners::enter(8);
        $crate::joiners::mark(0);
        let __f0 = $crate::joiners::atag(0, $e0);
        $crate::joiners::mark(1);
        let __f1 = $crate::joiners::atag(1, $e1);
        $crate::joiners::mark(2);
        let __f2 = $crate::joiners::atag(2, $e2);
        $crate::joiners::mark(3);
        let __f3 = $crate::joiners::atag(3, $e3);
        $crate::joiners::mark(4);
        let __f4 = $crate::joiners::atag(4, $e4);
        $crate::joiners::mark(5);
        let __f5 = $crate::joiners::atag(5, $e5);
        $crate::joiners::mark(6);
        let __f6 = $crate::joiners::atag(6, $e6);
        $crate::joiners::mark(7);
        let __f7 = $crate::joiners::atag(7, $e7);
        $crate::joiners::leave();
        async move {
            let __r0 = __f0.await?;
            let __r1 = __f1.await?;
            let __r2 = __f2.await?;
            let __r3 = __f3.await?;
            let __r4 = __f4.await?;
            let __r5 = __f5.await?;
            let __r6 = __f6.await?;
            let __r7 = __f7.await?;
            Ok((__r0, __r1, __r2, __r3, __r4, __r5, __r6, __r7,))
        }
        .await
    }};
}

/// pass-through joiner for `lazy_branches(true)` in the sequential macros: calls the branch closures in
/// order and returns the tuple of their values (no bound on the closures or the values)
#[macro_export]
macro_rules! jv_plazy {
    ($($f:expr),+ $(,)?) => {
        ($(($f)()),+)
    };
}
/// pass-through joiners for programs whose values are not harness tokens (C19 bounds stage)
#[macro_export]
macro_rules! jv_pjoin {
    ($($e:expr),+ $(,)?) => {
        $crate::__futures::join!($($e),+)
    };
}
#[macro_export]
macro_rules! jv_ptry {
    ($($e:expr),+ $(,)?) => {
        $crate::__futures::try_join!($($e),+)
    };
}
