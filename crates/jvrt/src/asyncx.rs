//! Deterministic executor for the async macros (C03 async, C09, C18 async).
//!
//! The macro's future is polled by hand with a flag-setting waker inside a tokio
//! `current_thread` runtime (needed by the task-spawning variants; spawned tasks run when the
//! controller yields). Every future-returning harness callback awaits a gate future that stays
//! pending until the controller opens it, so the order in which pending points become ready
//! is a generated value. No wall clock is involved.

use crate::log::{self, Ev, K};
use crate::model::{self, Expect};
use crate::oracle::{Obs, Violation};
use crate::plan::{self, Plan};
use crate::prog::*;
use crate::runner::{panic_message, reset_all, Case, CaseFn, CaseReport, Mode};
use crate::sched;
use crate::sem::Out;
use futures::task::ArcWake;
use serde_json::json;
use std::future::Future;
use std::panic::{catch_unwind, AssertUnwindSafe};
use std::sync::atomic::{AtomicBool, AtomicU64, Ordering};
use std::sync::Arc;
use std::task::{Context, Poll};

fn viol(oracle: &'static str, detail: String) -> Violation {
    Violation { oracle, detail }
}

struct Flag {
    set: AtomicBool,
    count: AtomicU64,
}

impl ArcWake for Flag {
    fn wake_by_ref(a: &Arc<Self>) {
        a.set.store(true, Ordering::SeqCst);
        a.count.fetch_add(1, Ordering::SeqCst);
    }
}

pub struct AsyncRun {
    pub outcome: Option<Out>,
    pub panic_msg: Option<String>,
    pub events: Vec<Ev>,
    pub violations: Vec<Violation>,
    /// number of alternatives at each scheduling decision (for systematic enumeration)
    pub arity: Vec<usize>,
    pub polls: u64,
    pub spurious: u64,
    pub opened_out_of_order: bool,
}

#[derive(Clone, Debug, Default)]
pub struct ASchedule {
    /// choice at the k-th scheduling decision (index into the sorted set of waiting gates)
    pub picks: Vec<usize>,
    /// extra knobs derived from a seed: spurious polls and batch opening
    pub knob: u64,
    /// which future-returning callbacks are gated: 0 all, 1 first of each cell, 2 last of each cell
    pub gate_sel: u8,
}

impl ASchedule {
    pub fn to_json(&self) -> serde_json::Value {
        json!({"picks": self.picks, "knob": self.knob, "gate_sel": self.gate_sel})
    }
}

pub fn choose_gates(exp: &Expect, sel: u8) -> Vec<u32> {
    let mut out = Vec::new();
    for se in &exp.steps {
        for bs in se.branches.iter().flatten() {
            if bs.gates.is_empty() {
                continue;
            }
            match sel {
                0 => out.extend(bs.gates.iter().copied()),
                1 => out.push(bs.gates[0]),
                _ => out.push(*bs.gates.last().unwrap()),
            }
        }
    }
    out
}

async fn settle() {
    // let spawned tasks run until nothing changes any more
    let mut stable = 0;
    let mut last = (log::len(), sched::async_waiting().len());
    for _ in 0..10_000 {
        tokio::task::yield_now().await;
        let now = (log::len(), sched::async_waiting().len());
        if now == last {
            stable += 1;
            if stable >= 3 {
                return;
            }
        } else {
            stable = 0;
            last = now;
        }
    }
}

#[derive(Clone, Copy, PartialEq)]
pub enum What {
    Barrier,
    Progress,
    Panic,
}

/// One controlled evaluation.
pub fn run_async(case: &Case, prog: &Prog, plan: &Plan, exp: &Expect, sch: &ASchedule, what: What) -> AsyncRun {
    reset_all();
    crate::cb::ASYNC_MODE.store(true, Ordering::SeqCst);
    plan::set(plan.clone());
    let f = match &case.f {
        CaseFn::Async(f) => *f,
        _ => panic!("async run of a sync case"),
    };
    let kind = prog.kind();
    let rt = tokio::runtime::Builder::new_current_thread().enable_time().build().unwrap();
    // the future is *built* in the context of another (idle) runtime and polled on `rt`: nothing may
    // be bound to a runtime before the first poll
    let rt_other = tokio::runtime::Builder::new_current_thread().build().unwrap();
    let prebuilt = {
        let _g = rt_other.enter();
        std::cell::RefCell::new(Some(catch_unwind(AssertUnwindSafe(|| f()))))
    };
    let local = tokio::task::LocalSet::new();
    let loc = exp.loc.clone();
    let gated: Vec<u32> = plan.gates.clone();
    // per branch-step ordered gate lists restricted to the gated ids (for the progress check)
    let chains: Vec<Vec<u32>> = exp
        .steps
        .iter()
        .flat_map(|se| se.branches.iter().flatten().map(|bs| bs.gates.iter().copied().filter(|g| gated.contains(g)).collect::<Vec<u32>>()))
        .filter(|c: &Vec<u32>| !c.is_empty())
        .collect();
    let first_gates_of_step = |s: usize| -> Vec<u32> {
        exp.steps
            .get(s)
            .map(|se| se.branches.iter().flatten().filter_map(|bs| bs.gates.iter().copied().find(|g| gated.contains(g))).collect())
            .unwrap_or_default()
    };
    let sch = sch.clone();
    let res = catch_unwind(AssertUnwindSafe(|| {
        local.block_on(&rt, async move {
            let mut violations: Vec<Violation> = Vec::new();
            let mut arity = Vec::new();
            let mut polls = 0u64;
            let mut spurious = 0u64;
            let mut out_of_order = false;
            let flag = Arc::new(Flag { set: AtomicBool::new(false), count: AtomicU64::new(0) });
            let waker = futures::task::waker(flag.clone());
            let mut cx = Context::from_waker(&waker);
            // ---- laziness: building the future evaluates nothing
            let mut root = match prebuilt.borrow_mut().take().unwrap() {
                Ok(r) => r,
                Err(p) => {
                    violations.push(viol("lazy", format!("building the macro's future panicked: {}", panic_message(&p))));
                    return (None, Some("construction panicked".to_string()), violations, vec![], 0, 0, false);
                }
            };
            if what == What::Progress && log::len() != 0 {
                violations.push(viol("lazy", format!("events before the first poll: {:?}", log::snapshot().iter().map(|e| e.short()).collect::<Vec<_>>())));
            }
            let mut outcome: Option<Out> = None;
            let mut panic_msg: Option<String> = None;
            let mut decision = 0usize;
            let mut knob = sch.knob;
            let mut next_knob = move || {
                knob = crate::tok::mixf(knob, 77);
                knob
            };
            let mut first_poll = true;
            let mut steps_seen_started: Vec<bool> = vec![false; exp.steps.len()];
            let later_events = |s: usize| -> Vec<String> {
                log::snapshot()
                    .iter()
                    .filter(|e| !matches!(e.k, K::Mark | K::Joiner | K::Fx | K::HExpr))
                    .filter(|e| loc.get(&e.id).map(|l| l.0 != usize::MAX && l.1 > s).unwrap_or(false))
                    .map(|e| e.short())
                    .collect()
            };
            let mut last_opened: Option<u32> = None;
            let mut guard = 0;
            loop {
                guard += 1;
                if guard > 10_000 {
                    violations.push(viol("complete", "executor loop did not terminate".into()));
                    break;
                }
                let notified = flag.set.swap(false, Ordering::SeqCst);
                let do_spurious = sch.knob != 0 && !first_poll && !notified && next_knob() % 5 == 0;
                if first_poll || notified || do_spurious {
                    if do_spurious {
                        spurious += 1;
                    }
                    first_poll = false;
                    polls += 1;
                    let r = catch_unwind(AssertUnwindSafe(|| root.as_mut().poll(&mut cx)));
                    match r {
                        Ok(Poll::Ready(o)) => {
                            outcome = Some(o);
                            break;
                        }
                        Ok(Poll::Pending) => {}
                        Err(p) => {
                            panic_msg = Some(panic_message(&p));
                            break;
                        }
                    }
                }
                settle().await;
                if flag.set.load(Ordering::SeqCst) {
                    continue; // woken while tasks ran: poll again first
                }
                let waiting = sched::async_waiting();
                // ---- progress: the branch whose gate was opened last has moved on to its next gate
                if what == What::Progress {
                    // (a try macro whose step fails may drop sibling branches half way: no claim there)
                    let failing_step = if kind.is_try { exp.fail_step } else { None };
                    if let Some(g) = last_opened.take().filter(|g| loc.get(g).map(|l| Some(l.1) != failing_step).unwrap_or(true)) {
                        for c in &chains {
                            if let Some(i) = c.iter().position(|x| *x == g) {
                                if let Some(nx) = c.get(i + 1) {
                                    if !sched::async_arrived(*nx) && panic_msg.is_none() {
                                        violations.push(viol(
                                            "progress",
                                            format!("gate {} was opened (siblings still pending: {:?}) but its branch did not reach its next pending point {}", g, waiting, nx),
                                        ));
                                    }
                                }
                            }
                        }
                    }
                    // concurrency: when a step has started, every active branch has reached its first gate
                    for s in 0..exp.steps.len() {
                        if steps_seen_started[s] || failing_step == Some(s) {
                            continue;
                        }
                        let fg = first_gates_of_step(s);
                        if fg.iter().any(|g| sched::async_arrived(*g)) {
                            steps_seen_started[s] = true;
                            let missing: Vec<u32> = fg.iter().copied().filter(|g| !sched::async_arrived(*g)).collect();
                            if !missing.is_empty() {
                                violations.push(viol(
                                    "concurrent",
                                    format!("step {}: after polling, gates {:?} were reached but {:?} were not: a pending branch blocks its siblings", s, fg, missing),
                                ));
                            }
                        }
                    }
                }
                // ---- panic: once the injected panic has been raised (in the root or in a task) the
                // macro's future must panic at its next poll, not wait for pending siblings
                if what == What::Panic {
                    if let Some((pid, pk)) = &plan.panic_at {
                        if log::snapshot().iter().any(|e| e.id == *pid && e.k.name() == pk) {
                            violations.push(viol(
                                "panic_pending",
                                format!("the panic at {}#{} has been raised, nothing is runnable, yet the macro's future is pending and was not woken (siblings pending at {:?})", pk, pid, waiting),
                            ));
                            break;
                        }
                    }
                }
                if waiting.is_empty() {
                    // nothing is pending on the harness side, the root was not notified and is not ready
                    violations.push(viol(
                        "complete",
                        format!("every pending point is open and no wake-up is outstanding, but the macro's future is still pending after {} polls (lost wake-up or hang)", polls),
                    ));
                    break;
                }
                // ---- barrier: while a gate of step s is closed nothing of a later step exists
                if what == What::Barrier {
                    let smin = waiting.iter().filter_map(|g| loc.get(g).map(|l| l.1)).min().unwrap_or(0);
                    let later = later_events(smin);
                    if !later.is_empty() {
                        violations.push(viol("barrier", format!("gates {:?} of step {} are still closed but later-step events exist: {:?}", waiting, smin, later)));
                        break;
                    }
                }
                // ---- scheduling decision
                arity.push(waiting.len());
                let pick = sch.picks.get(decision).copied().unwrap_or(0).min(waiting.len() - 1);
                decision += 1;
                if pick != 0 {
                    out_of_order = true;
                }
                let g = waiting[pick];
                let before = flag.count.load(Ordering::SeqCst);
                let woke = sched::async_open(g);
                last_opened = Some(g);
                // batch: sometimes open a second gate before polling again
                if sch.knob != 0 && waiting.len() > 1 && next_knob() % 4 == 0 {
                    let g2 = waiting[(pick + 1) % waiting.len()];
                    sched::async_open(g2);
                    last_opened = None;
                }
                if !kind.is_spawn && woke && flag.count.load(Ordering::SeqCst) == before {
                    violations.push(viol("wakeup", format!("opening gate {} woke its waker but the macro's future was not notified", g)));
                }
            }
            drop(root);
            (outcome, panic_msg, violations, arity, polls, spurious, out_of_order)
        })
    }));
    drop(local);
    drop(rt);
    drop(rt_other);
    let events = log::snapshot();
    match res {
        Ok((outcome, panic_msg, violations, arity, polls, spurious, ooo)) => AsyncRun { outcome, panic_msg, events, violations, arity, polls, spurious, opened_out_of_order: ooo },
        Err(p) => AsyncRun {
            outcome: None,
            panic_msg: Some(panic_message(&p)),
            events,
            violations: vec![viol("executor", "the controller itself panicked".to_string())],
            arity: vec![],
            polls: 0,
            spurious: 0,
            opened_out_of_order: false,
        },
    }
}

/// constructs the macro's future and drops it without polling: nothing may have been evaluated
pub fn run_unpolled(case: &Case, plan: &Plan) -> Vec<Violation> {
    reset_all();
    crate::cb::ASYNC_MODE.store(true, Ordering::SeqCst);
    plan::set(plan.clone());
    let f = match &case.f {
        CaseFn::Async(f) => *f,
        _ => return vec![],
    };
    // first outside any runtime: building the future must not even look for one
    let built = catch_unwind(AssertUnwindSafe(|| {
        let fut = f();
        drop(fut);
    }));
    if let Err(p) = built {
        return vec![viol("lazy", format!("building the macro's future outside a runtime (without polling it) panicked: {}", panic_message(&p)))];
    }
    let rt = tokio::runtime::Builder::new_current_thread().build().unwrap();
    let local = tokio::task::LocalSet::new();
    local.block_on(&rt, async move {
        let fut = f();
        drop(fut);
        settle().await;
    });
    drop(local);
    drop(rt);
    let ev = log::snapshot();
    if ev.is_empty() {
        vec![]
    } else {
        vec![viol("lazy", format!("future built and dropped without polling, yet: {:?}", ev.iter().map(|e| e.short()).collect::<Vec<_>>()))]
    }
}

/// Task-spawning signature: with every pending point gated, how many gates have been reached
/// after the *first poll* of the macro's future, before the runtime ran any spawned task.
/// (not spawned: every active branch of step 0; spawned: none when step 0 has > 1 branch)
pub fn first_poll_arrivals(case: &Case, prog: &Prog) -> usize {
    reset_all();
    crate::cb::ASYNC_MODE.store(true, Ordering::SeqCst);
    let mut plan = Plan::all_good();
    let exp = model::interpret(prog, &plan);
    plan.gates = choose_gates(&exp, 0);
    plan::set(plan);
    let f = match &case.f {
        CaseFn::Async(f) => *f,
        _ => return 0,
    };
    let rt = tokio::runtime::Builder::new_current_thread().build().unwrap();
    let local = tokio::task::LocalSet::new();
    let n = local.block_on(&rt, async move {
        let flag = Arc::new(Flag { set: AtomicBool::new(false), count: AtomicU64::new(0) });
        let waker = futures::task::waker(flag.clone());
        let mut cx = Context::from_waker(&waker);
        let mut root = f();
        let _ = catch_unwind(AssertUnwindSafe(|| root.as_mut().poll(&mut cx)));
        let n = sched::async_waiting().len();
        sched::open_all();
        drop(root);
        n
    });
    drop(local);
    drop(rt);
    n
}

/// C07: a single-branch program spawns nothing, so the future of a task-spawning macro can be driven
/// without any tokio runtime, like its plain counterpart's. All-succeed plan, no gates: polled with a
/// no-op waker outside every runtime context. Returns what happened.
pub fn outside_runtime(case: &Case) -> String {
    reset_all();
    crate::cb::ASYNC_MODE.store(true, Ordering::SeqCst);
    plan::set(Plan::all_good());
    let f = match &case.f {
        CaseFn::Async(f) => *f,
        _ => return "not async".to_string(),
    };
    let r = catch_unwind(AssertUnwindSafe(|| {
        let mut root = f();
        let w = futures::task::noop_waker();
        let mut cx = Context::from_waker(&w);
        for _ in 0..10_000 {
            if let Poll::Ready(o) = root.as_mut().poll(&mut cx) {
                return Some(o.to_json().to_string());
            }
        }
        None
    }));
    match r {
        Ok(Some(o)) => format!("completed {}", o.chars().take(120).collect::<String>()),
        Ok(None) => "still pending after 10000 polls".to_string(),
        Err(_) => "panicked".to_string(),
    }
}

fn next_picks(picks: &[usize], arity: &[usize]) -> Option<Vec<usize>> {
    // odometer over the choice points actually met in the last run
    let mut p: Vec<usize> = (0..arity.len()).map(|i| picks.get(i).copied().unwrap_or(0).min(arity[i].saturating_sub(1))).collect();
    let mut i = p.len();
    while i > 0 {
        i -= 1;
        if p[i] + 1 < arity[i] {
            p[i] += 1;
            p.truncate(i + 1);
            return Some(p);
        }
    }
    None
}

pub fn run_case(case: &Case, prog: &Prog, mode: &Mode) -> CaseReport {
    let mut rep = CaseReport::new();
    let m = mode.name.as_str();
    let what = match m {
        "C03A" => What::Barrier,
        _ => What::Progress,
    };
    let ids = model::decision_ids(prog);
    let mut picks: Vec<usize> = vec![];
    let mut exhausted = false;
    if what == What::Progress {
        let vs = run_unpolled(case, &Plan::all_good());
        rep.runs += 1;
        if !vs.is_empty() {
            rep.violation(&Plan::all_good(), json!({"unpolled": true}), &vs, &[]);
            return rep;
        }
    }
    for k in 0..mode.budget.max(1) {
        let mut plan = Plan::all_good();
        if k % 4 == 3 && !ids.is_empty() {
            plan.bad = vec![ids[(k / 4) % ids.len()]];
        }
        let gate_sel = if exhausted { ((k % 2) + 1) as u8 } else { 0 };
        let exp0 = model::interpret(prog, &plan);
        plan.gates = choose_gates(&exp0, gate_sel);
        let exp = exp0;
        // systematic phase: pure wake-up orders; afterwards random orders with spurious polls and batches
        let knob = if exhausted { (mode.seed ^ ((case.idx as u64) << 20) ^ k as u64) | 1 } else { 0 };
        let sch = ASchedule { picks: picks.clone(), knob, gate_sel };
        let ar = run_async(case, prog, &plan, &exp, &sch, what);
        rep.runs += 1;
        let mut vs = ar.violations.clone();
        let obs = Obs { prog, exp: &exp, events: &ar.events, outcome: ar.outcome.as_ref() };
        match what {
            What::Barrier => vs.extend(obs.barrier_log()),
            What::Progress => {
                if ar.panic_msg.is_none() && vs.is_empty() {
                    // completes with the model's value under every wake-up order
                    vs.extend(obs.outcome());
                }
                if let Some(p) = &ar.panic_msg {
                    vs.push(viol("complete", format!("polling panicked: {}", p)));
                }
            }
            What::Panic => {}
        }
        let n = prog.branches.len();
        let nt = match what {
            What::Barrier => n >= 2 && prog.max_steps() >= 2 && (ar.opened_out_of_order || prog.depths().iter().any(|d| *d != prog.depths()[0])),
            _ => n >= 2 && ar.opened_out_of_order && ar.arity.len() >= 2,
        };
        if nt {
            rep.nontrivial += 1;
            if rep.samples.is_empty() {
                rep.samples.push(json!({"schedule": sch.to_json(), "plan": plan.to_json(), "polls": ar.polls, "spurious_polls": ar.spurious, "decisions": ar.arity}));
            }
        }
        rep.class(&format!("gate_sel={}", gate_sel));
        if ar.spurious > 0 {
            rep.class("with_spurious_poll");
        }
        if ar.opened_out_of_order {
            rep.class("out_of_index_order");
        }
        rep.class(&format!("decisions={}", ar.arity.len().min(8)));
        if !vs.is_empty() {
            rep.violation(&plan, json!({"schedule": sch.to_json(), "panic": ar.panic_msg, "outcome": ar.outcome.as_ref().map(|o| o.to_json())}), &vs, &ar.events);
            break;
        }
        // systematic enumeration of wake-up orders, then random knobs on the last order
        if !exhausted {
            match next_picks(&picks, &ar.arity) {
                Some(p) => picks = p,
                None => {
                    exhausted = true;
                    rep.class("orders_exhausted");
                    picks = vec![];
                }
            }
        } else {
            // random picks derived from the knob
            let mut x = sch.knob;
            picks = (0..ar.arity.len().max(1))
                .map(|_| {
                    x = crate::tok::mixf(x, 5);
                    (x % 7) as usize
                })
                .collect();
        }
    }
    rep
}
