//! Deterministic async executor runs (C03 async, C09, C18 async).
use crate::prog::Prog;
use crate::runner::{Case, CaseReport, Mode};

pub fn run_case(_case: &Case, _prog: &Prog, _mode: &Mode) -> CaseReport {
    let mut r = CaseReport::new();
    r.infra.push("async runner not built".into());
    r
}
