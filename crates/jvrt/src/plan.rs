//! Per-run plan: what each callback id does (good / bad outcome, panic, gate).
//! One compiled program is run under many plans.

use std::sync::RwLock;

#[derive(Clone, Debug, Default, PartialEq)]
pub struct Plan {
    /// ids whose W-returning callback produces the failing variant
    pub bad: Vec<u32>,
    /// (id, event kind name) that panics when it happens
    pub panic_at: Option<(u32, String)>,
    /// ids that stop at a gate when called
    pub gates: Vec<u32>,
    /// every callback uses a quarter of a megabyte of stack while it runs (C07: a branch that
    /// fits the caller's stack comfortably must fit a branch thread's too)
    pub deep: bool,
}

impl Plan {
    pub fn all_good() -> Plan {
        Plan::default()
    }
    pub fn is_bad(&self, id: u32) -> bool {
        self.bad.contains(&id)
    }
    pub fn is_gate(&self, id: u32) -> bool {
        self.gates.contains(&id)
    }
    pub fn to_json(&self) -> serde_json::Value {
        serde_json::json!({"bad": self.bad, "panic_at": self.panic_at.as_ref().map(|(i, k)| serde_json::json!([i, k])), "gates": self.gates, "deep": self.deep})
    }
    pub fn from_json(v: &serde_json::Value) -> Plan {
        let arr = |k: &str| -> Vec<u32> {
            v.get(k)
                .and_then(|a| a.as_array())
                .map(|a| a.iter().filter_map(|x| x.as_u64()).map(|x| x as u32).collect())
                .unwrap_or_default()
        };
        Plan {
            bad: arr("bad"),
            panic_at: v.get("panic_at").and_then(|x| x.as_array()).map(|a| (a[0].as_u64().unwrap() as u32, a[1].as_str().unwrap().to_string())),
            gates: arr("gates"),
            deep: v.get("deep").and_then(|x| x.as_bool()).unwrap_or(false),
        }
    }
}

static PLAN: RwLock<Option<Plan>> = RwLock::new(None);

pub fn set(p: Plan) {
    *PLAN.write().unwrap_or_else(|e| e.into_inner()) = Some(p);
}

pub fn is_bad(id: u32) -> bool {
    PLAN.read().unwrap_or_else(|e| e.into_inner()).as_ref().map(|p| p.is_bad(id)).unwrap_or(false)
}

pub fn is_deep() -> bool {
    PLAN.read().unwrap_or_else(|e| e.into_inner()).as_ref().map(|p| p.deep).unwrap_or(false)
}

/// uses about `n` bytes of stack
#[inline(never)]
pub fn burn(n: usize) -> u64 {
    let mut a = [0u8; 4096];
    a[n % 4096] = 1;
    std::hint::black_box(&mut a);
    if n > 4096 {
        burn(n - 4096) + a[0] as u64
    } else {
        a[1] as u64
    }
}

pub fn is_gate(id: u32) -> bool {
    PLAN.read().unwrap_or_else(|e| e.into_inner()).as_ref().map(|p| p.is_gate(id)).unwrap_or(false)
}

pub fn panics(id: u32, k: crate::log::K) -> bool {
    PLAN.read()
        .unwrap_or_else(|e| e.into_inner())
        .as_ref()
        .map(|p| p.panic_at.as_ref().map(|(i, kk)| *i == id && kk == k.name()).unwrap_or(false))
        .unwrap_or(false)
}

/// Payload type of injected panics.
#[derive(Debug)]
pub struct Injected(pub u32);

pub fn maybe_panic(id: u32, k: crate::log::K) {
    if panics(id, k) {
        std::panic::panic_any(Injected(id));
    }
}
