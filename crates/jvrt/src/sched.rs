//! Harness-owned scheduling points.
//!
//! * blocking gates for OS threads: a callback whose id is gated records its arrival and
//!   blocks until the controller releases it;
//! * gate futures for async code: `Pending` (storing the waker) until the controller
//!   opens the gate and wakes it.

use crate::log::{ev, tag, K};
use std::collections::HashMap;
use std::future::Future;
use std::pin::Pin;
use std::sync::{Condvar, Mutex};
use std::task::{Context, Poll, Waker};
use std::time::{Duration, Instant};

#[derive(Default)]
struct St {
    arrived: Vec<(u32, u64)>,
    released: Vec<u32>,
    open_all: bool,
}

static ST: Mutex<Option<St>> = Mutex::new(None);
static CV: Condvar = Condvar::new();

fn with<R>(f: impl FnOnce(&mut St) -> R) -> R {
    let mut g = ST.lock().unwrap_or_else(|e| e.into_inner());
    if g.is_none() {
        *g = Some(St::default());
    }
    f(g.as_mut().unwrap())
}

pub fn reset() {
    with(|s| *s = St::default());
    agw(|m| m.clear());
    OPEN_ALL_ASYNC.store(false, std::sync::atomic::Ordering::SeqCst);
    CV.notify_all();
}

/// Called from a gated callback on a worker thread.
pub fn arrive_blocking(id: u32) {
    ev(id, K::Arrive, tag::NONE, 0);
    let mut g = ST.lock().unwrap_or_else(|e| e.into_inner());
    if g.is_none() {
        *g = Some(St::default());
    }
    g.as_mut().unwrap().arrived.push((id, crate::log::tid()));
    CV.notify_all();
    loop {
        {
            let s = g.as_ref().unwrap();
            if s.open_all || s.released.contains(&id) {
                break;
            }
        }
        g = CV.wait(g).unwrap_or_else(|e| e.into_inner());
    }
    drop(g);
    ev(id, K::Pass, tag::NONE, 0);
}

pub fn arrived() -> Vec<(u32, u64)> {
    with(|s| s.arrived.clone())
}

pub fn release(id: u32) {
    with(|s| s.released.push(id));
    CV.notify_all();
}

pub fn open_all() {
    with(|s| s.open_all = true);
    CV.notify_all();
    OPEN_ALL_ASYNC.store(true, std::sync::atomic::Ordering::SeqCst);
    let ws: Vec<Waker> = agw(|m| m.values_mut().filter_map(|a| a.waker.take()).collect());
    for w in ws {
        w.wake();
    }
}

/// Blocks the controller until `pred(arrived)` holds, `done()` holds, or the deadline passes.
/// Returns true when pred or done became true.
pub fn wait_until(pred: impl Fn(&[(u32, u64)]) -> bool, done: impl Fn() -> bool, deadline: Duration) -> bool {
    let end = Instant::now() + deadline;
    let mut g = ST.lock().unwrap_or_else(|e| e.into_inner());
    loop {
        if g.is_none() {
            *g = Some(St::default());
        }
        if pred(&g.as_ref().unwrap().arrived) || done() {
            return true;
        }
        let now = Instant::now();
        if now >= end {
            return false;
        }
        // short waits: `done` is signalled outside this condvar
        let w = std::cmp::min(end - now, Duration::from_millis(2));
        g = CV.wait_timeout(g, w).unwrap_or_else(|e| e.into_inner()).0;
    }
}

pub fn notify() {
    CV.notify_all();
}

// ------------------------------------------------------------------ async gates

#[derive(Default)]
struct AGate {
    open: bool,
    arrived: bool,
    passed: bool,
    waker: Option<Waker>,
    polls: u32,
}

static AG: Mutex<Option<HashMap<u32, AGate>>> = Mutex::new(None);
static OPEN_ALL_ASYNC: std::sync::atomic::AtomicBool = std::sync::atomic::AtomicBool::new(false);

fn agw<R>(f: impl FnOnce(&mut HashMap<u32, AGate>) -> R) -> R {
    let mut g = AG.lock().unwrap_or_else(|e| e.into_inner());
    if g.is_none() {
        *g = Some(HashMap::new());
    }
    f(g.as_mut().unwrap())
}

/// A future that stays pending until the controller opens gate `id`.
/// When the plan does not gate `id` it is ready immediately.
pub struct GateFut {
    id: u32,
    gated: bool,
}

pub fn gate(id: u32) -> GateFut {
    GateFut { id, gated: crate::plan::is_gate(id) }
}

impl Future for GateFut {
    type Output = ();
    fn poll(self: Pin<&mut Self>, cx: &mut Context<'_>) -> Poll<()> {
        if !self.gated {
            return Poll::Ready(());
        }
        let id = self.id;
        let open_all = OPEN_ALL_ASYNC.load(std::sync::atomic::Ordering::SeqCst);
        let (first, ready) = agw(|m| {
            let a = m.entry(id).or_default();
            let first = !a.arrived;
            a.arrived = true;
            a.polls += 1;
            if a.open || open_all {
                a.passed = true;
                (first, true)
            } else {
                a.waker = Some(cx.waker().clone());
                (first, false)
            }
        });
        if first {
            ev(id, K::Arrive, tag::NONE, 0);
        }
        if ready {
            ev(id, K::Pass, tag::NONE, 0);
            Poll::Ready(())
        } else {
            Poll::Pending
        }
    }
}

/// ids of async gates that have been reached and not yet passed
pub fn async_waiting() -> Vec<u32> {
    let mut v: Vec<u32> = agw(|m| m.iter().filter(|(_, a)| a.arrived && !a.passed).map(|(i, _)| *i).collect());
    v.sort();
    v
}

pub fn async_arrived(id: u32) -> bool {
    agw(|m| m.get(&id).map(|a| a.arrived).unwrap_or(false))
}

pub fn async_passed(id: u32) -> bool {
    agw(|m| m.get(&id).map(|a| a.passed).unwrap_or(false))
}

/// Opens an async gate; returns true when a stored waker was woken.
pub fn async_open(id: u32) -> bool {
    let w = agw(|m| {
        let a = m.entry(id).or_default();
        a.open = true;
        a.waker.take()
    });
    match w {
        Some(w) => {
            w.wake();
            true
        }
        None => false,
    }
}
