//! Global event log shared by all callbacks of a generated program.
//!
//! Every user-visible evaluation (initial value, operand expression, callback call,
//! block capture, snapshot, handler, joiner, gate) appends one `Ev`. Sequence numbers
//! come from one atomic, so the log is a linearisation of what happened.

use std::sync::atomic::{AtomicBool, AtomicU64, Ordering};
use std::sync::Mutex;

#[derive(Clone, Copy, Debug, PartialEq, Eq, Hash, PartialOrd, Ord)]
pub enum K {
    /// initial value expression evaluated
    Init,
    /// operand expression evaluated (the callback object was constructed)
    Op,
    /// callback invoked
    Call,
    /// block capture evaluated
    Cap,
    /// snapshot of a `let` name inside a capture
    Snap,
    /// handler expression evaluated
    HExpr,
    /// handler called
    HCall,
    /// custom joiner invoked (h = arity)
    Joiner,
    /// a lazy thunk handed to a joiner was invoked / a joined element was produced
    Thunk,
    /// gate reached
    Arrive,
    /// gate passed
    Pass,
    /// futures shim macro invoked
    Fx,
    /// nested macro boundary marker
    Mark,
}

impl K {
    pub fn name(self) -> &'static str {
        match self {
            K::Init => "init",
            K::Op => "op",
            K::Call => "call",
            K::Cap => "cap",
            K::Snap => "snap",
            K::HExpr => "hexpr",
            K::HCall => "hcall",
            K::Joiner => "joiner",
            K::Thunk => "thunk",
            K::Arrive => "arrive",
            K::Pass => "pass",
            K::Fx => "fx",
            K::Mark => "mark",
        }
    }
}

/// Tags describing the argument a callback saw.
pub mod tag {
    pub const NONE: u8 = 0; // nothing / unit
    pub const TOK: u8 = 1; // a bare token
    pub const OK: u8 = 2; // Ok(tok) / Some(tok)
    pub const ERR: u8 = 3; // Err(tok)
    pub const NIL: u8 = 4; // None
    pub const OTHER: u8 = 5;
}

#[derive(Clone, Debug)]
pub struct Ev {
    pub seq: u64,
    pub id: u32,
    pub k: K,
    pub tag: u8,
    pub h: u64,
    pub tid: u64,
    pub tname: Option<String>,
}

impl Ev {
    pub fn short(&self) -> String {
        format!("{}:{}#{}[{}:{:x}]@t{}", self.seq, self.k.name(), self.id, self.tag, self.h & 0xffff, self.tid)
    }
}

static SEQ: AtomicU64 = AtomicU64::new(0);
static NEXT_TID: AtomicU64 = AtomicU64::new(1);
static LOG: Mutex<Vec<Ev>> = Mutex::new(Vec::new());
/// When set, thread names are not captured and the log must have been preallocated
/// (used by the allocation check, where logging itself must not allocate).
static QUIET: AtomicBool = AtomicBool::new(false);

thread_local! {
    static TID: u64 = NEXT_TID.fetch_add(1, Ordering::SeqCst);
}

pub fn tid() -> u64 {
    TID.with(|t| *t)
}

pub fn set_quiet(q: bool) {
    QUIET.store(q, Ordering::SeqCst);
}

pub fn reset() {
    let mut l = LOG.lock().unwrap_or_else(|e| e.into_inner());
    l.clear();
    SEQ.store(0, Ordering::SeqCst);
}

pub fn reserve(n: usize) {
    let mut l = LOG.lock().unwrap_or_else(|e| e.into_inner());
    l.reserve(n);
}

pub fn ev(id: u32, k: K, tag: u8, h: u64) {
    let quiet = QUIET.load(Ordering::Relaxed);
    let tname = if quiet { None } else { std::thread::current().name().map(|s| s.to_string()) };
    let t = tid();
    let mut l = LOG.lock().unwrap_or_else(|e| e.into_inner());
    let seq = SEQ.fetch_add(1, Ordering::SeqCst);
    l.push(Ev { seq, id, k, tag, h, tid: t, tname });
}

pub fn snapshot() -> Vec<Ev> {
    LOG.lock().unwrap_or_else(|e| e.into_inner()).clone()
}

pub fn len() -> usize {
    LOG.lock().unwrap_or_else(|e| e.into_inner()).len()
}
