//! Evidence files, known findings, replay files, the VIOLATION protocol.

use serde_json::{json, Value};
use std::collections::BTreeMap;
use std::fs;
use std::path::PathBuf;

pub fn root() -> PathBuf {
    crate::batch::verif_root()
}

#[derive(Default)]
pub struct Evidence {
    pub property: String,
    pub tier: String,
    pub seed: u64,
    pub level: String,
    pub evaluations: u64,
    pub nontrivial: u64,
    pub programs: u64,
    pub rule: String,
    pub samples: Vec<Value>,
    pub classes: BTreeMap<String, u64>,
    pub assumptions: Vec<String>,
    pub violations: u64,
    pub known_findings: Vec<String>,
    pub excluded_known: u64,
    pub exhaustive: Option<bool>,
    pub extra: BTreeMap<String, Value>,
    pub infra: Vec<String>,
}

impl Evidence {
    pub fn add_classes(&mut self, c: &Value) {
        if let Some(m) = c.as_object() {
            for (k, v) in m {
                *self.classes.entry(k.clone()).or_default() += v.as_u64().unwrap_or(0);
            }
        }
    }
    pub fn class(&mut self, k: &str, n: u64) {
        *self.classes.entry(k.to_string()).or_default() += n;
    }
    pub fn write(&self, wall_s: f64) {
        let mut cov = json!({
            "evaluations": self.evaluations,
            "distinct_nontrivial": self.nontrivial,
            "rule": self.rule,
            "samples": self.samples.iter().take(8).collect::<Vec<_>>(),
            "programs": self.programs,
            "classes": self.classes,
            "known_findings_reported": self.known_findings,
            "excluded_known": self.excluded_known,
        });
        if let Some(e) = self.exhaustive {
            cov["exhaustive"] = json!(e);
        }
        for (k, v) in &self.extra {
            cov[k] = v.clone();
        }
        if !self.infra.is_empty() {
            cov["infrastructure_notes"] = json!(self.infra.iter().take(10).collect::<Vec<_>>());
        }
        let v = json!({
            "property_id": self.property,
            "tier": self.tier,
            "seed": self.seed,
            "level": self.level,
            "coverage": cov,
            "assumptions": self.assumptions,
            "wall_s": (wall_s * 100.0).round() / 100.0,
            "violations": self.violations,
        });
        let dir = root().join("evidence");
        let _ = fs::create_dir_all(&dir);
        let path = dir.join(format!("{}.json", self.property));
        let mut v = v;
        if let Ok(stage) = std::env::var("JV_MERGE") {
            // a later stage of a multi-stage check: keep the earlier coverage, add ours under `stage`
            if let Some(mut prev) = fs::read_to_string(&path).ok().and_then(|s| serde_json::from_str::<Value>(&s).ok()) {
                let mine = v["coverage"].clone();
                let add = |a: &Value, b: &Value| json!(a.as_u64().unwrap_or(0) + b.as_u64().unwrap_or(0));
                prev["coverage"]["evaluations"] = add(&prev["coverage"]["evaluations"], &mine["evaluations"]);
                prev["coverage"]["distinct_nontrivial"] = add(&prev["coverage"]["distinct_nontrivial"], &mine["distinct_nontrivial"]);
                prev["coverage"]["programs"] = add(&prev["coverage"]["programs"], &mine["programs"]);
                prev["coverage"][stage.as_str()] = mine;
                prev["violations"] = add(&prev["violations"], &v["violations"]);
                prev["wall_s"] = json!(prev["wall_s"].as_f64().unwrap_or(0.0) + v["wall_s"].as_f64().unwrap_or(0.0));
                v = prev;
            }
        }
        fs::write(path, serde_json::to_string_pretty(&v).unwrap() + "\n").unwrap();
    }
}

pub struct Known {
    pub entries: Vec<Value>,
}

impl Known {
    pub fn load() -> Known {
        let p = root().join("known_findings.json");
        let entries = fs::read_to_string(&p)
            .ok()
            .and_then(|s| serde_json::from_str::<Value>(&s).ok())
            .and_then(|v| v["findings"].as_array().cloned())
            .unwrap_or_default();
        Known { entries }
    }
    /// open finding of `property` with this signature?
    pub fn open(&self, property: &str, signature: &str) -> Option<&Value> {
        self.entries
            .iter()
            .find(|e| e["property"] == property && e["status"] == "open" && e["signature"].as_str() == Some(signature))
    }
}

pub fn write_replay(property: &str, body: &Value) -> PathBuf {
    let dir = root().join("replays");
    let _ = fs::create_dir_all(&dir);
    let text = serde_json::to_string_pretty(body).unwrap();
    let h = text.bytes().fold(0xcbf29ce484222325u64, |a, b| (a ^ b as u64).wrapping_mul(0x100000001b3));
    let p = dir.join(format!("{}-{:08x}.json", property, h & 0xffff_ffff));
    fs::write(&p, text + "\n").unwrap();
    p
}

pub fn print_violation(property: &str, replay: &std::path::Path) {
    println!("VIOLATION property={} replay={}", property, replay.display());
}
