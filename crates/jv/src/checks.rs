//! Per-property check definitions (domains, bounds, rules) for the engine-R checks.

use crate::gen::{self, GenCfg};
use crate::grid::{self, GridCheck};
use crate::render;
use jvrt::prog::*;
use jvrt::runner::new_runner;
use proptest::strategy::{Strategy, ValueTree};

pub static EXCLUDED_D4: std::sync::atomic::AtomicU64 = std::sync::atomic::AtomicU64::new(0);

pub const KINDS8: [&str; 8] = ["join", "try_join", "join_spawn", "try_join_spawn", "join_async", "try_join_async", "join_async_spawn", "try_join_async_spawn"];
pub const TRY6: [&str; 6] = ["try_join", "try_join_spawn", "try_spawn", "try_join_async", "try_join_async_spawn", "try_async_spawn"];

fn sample(seed: u64, salt: u64, count: usize, cfg: &GenCfg, force: &dyn Fn(usize) -> Option<&'static str>) -> Vec<Prog> {
    let mut runner = new_runner(seed, salt, 1);
    let mut v = Vec::with_capacity(count);
    for i in 0..count {
        let strat = gen::prog_strategy(cfg.clone(), force(i));
        // programs of the known-finding class D4 are excluded by construction (re-drawn)
        for _ in 0..50 {
            let p = strat.new_tree(&mut runner).expect("generation cannot fail").current();
            if gen::is_d4(&p) {
                EXCLUDED_D4.fetch_add(1, std::sync::atomic::Ordering::SeqCst);
                continue;
            }
            v.push(p);
            break;
        }
    }
    v
}

/// Every `every`-th program (2-8 branches, no options yet) runs its branches through a harness joiner that
/// suits its macro kind: the property must hold with `custom_joiner(..)` / `lazy_branches(..)` too.
fn sprinkle_joiners(progs: &mut [Prog], every: usize) {
    for (i, p) in progs.iter_mut().enumerate() {
        if i % every != every - 1 || p.branches.len() < 2 || p.branches.len() > 8 || p.opts != Opts::default() {
            continue;
        }
        let k = p.kind();
        if !k.is_async && !k.is_spawn {
            if (i / every) % 2 == 0 {
                p.opts.joiner = Some("jv_join".to_string());
                p.opts.order = vec![1];
            } else {
                p.opts.joiner = Some("jv_join_lazy".to_string());
                p.opts.lazy = Some(true);
                p.opts.order = vec![3, 1];
            }
        } else if !k.is_async {
            p.opts.joiner = Some("jv_join".to_string());
            p.opts.order = vec![1];
        } else if p.flavor == Flavor::Res {
            p.opts.joiner = Some(if k.is_try { "jv_atry" } else { "jv_ajoin" }.to_string());
            p.opts.order = vec![1];
        }
    }
}

fn base_check(id: &str, mode: &str, level: &str) -> GridCheck {
    GridCheck {
        id: id.to_string(),
        mode: mode.to_string(),
        level: level.to_string(),
        progs: vec![],
        budget: 256,
        features: vec![],
        rule: String::new(),
        assumptions: vec![
            "rustc/cargo, std, futures 0.3.26 and tokio 1.26 behave as documented".to_string(),
            "the harness callbacks (jvrt::cb) and the reference model (jvrt::model) are correct; the model encodes documented semantics only".to_string(),
        ],
        batch_size: 480,
        timeout_s: 600,
        exhaustive: None,
        extra_env: vec![],
        known_sig: None,
        extra_deps: String::new(),
        group: 1,
        compile_decides: !matches!(id, "C03" | "C06" | "C08" | "C09" | "C10" | "C11" | "C18"),
        post: None,
    }
}

fn c04(tier: &str, seed: u64) -> GridCheck {
    let mut c = base_check("C04", "C04", "exploration");
    let mut cfg = GenCfg::base(KINDS8.to_vec());
    cfg.wrappers = 0.0;
    cfg.caps = 0.0;
    cfg.snaps = 0.0;
    cfg.cell = (0, 2);
    cfg.handler = 0.35;
    cfg.names = 0.3;
    // exhaustive part: every depth profile with n <= 4, d <= 3, under each of the 8 macro kinds
    let profiles = gen::all_profiles(4, 3);
    let mut progs = Vec::new();
    for (pi, prof) in profiles.iter().enumerate() {
        for (ki, k) in KINDS8.iter().enumerate() {
            let mut cf = cfg.clone();
            cf.profile = Some(prof.clone());
            progs.extend(sample(seed, 0x0400_0000 + (pi * 8 + ki) as u64, 1, &cf, &|_| Some(k)));
        }
    }
    let n_exh = progs.len();
    // random part: larger n and d
    let extra = if tier == "quick" { 160 } else { 6000 };
    let mut cf = cfg.clone();
    cf.n = (2, 12);
    cf.depth = (1, 6);
    cf.equal_depths = 0.05;
    progs.extend(sample(seed, 0x04ff, extra, &cf, &|i| Some(KINDS8[i % 8])));
    c.progs = progs;
    c.budget = 16;
    c.rule = format!(
        "programs: all {} depth profiles with n<=4,d<=3 under each of the 8 macro kinds ({} programs, enumerated) plus {} random programs with n<=12,d<=6; handler / let patterns random; every branch value encodes (branch, callbacks applied). A run is one (program, plan) pair; non-trivial = at least 2 branches and not all depths equal; distinct = distinct program text x plan",
        profiles.len(),
        n_exh,
        extra
    );
    c
}

fn c05_cfg() -> GenCfg {
    let mut cfg = GenCfg::base(TRY6.to_vec());
    cfg.n = (1, 4);
    cfg.depth = (1, 4);
    cfg.cell = (0, 2);
    cfg.wrappers = 0.1;
    cfg.caps = 0.0;
    cfg.names = 0.0;
    cfg.snaps = 0.0;
    cfg.handler = 0.0;
    cfg.recover = 0.5;
    cfg.equal_depths = 0.15;
    cfg
}

fn c05(tier: &str, seed: u64) -> GridCheck {
    let mut c = base_check("C05", "C05", "fault_enumeration");
    let count = if tier == "quick" { 320 } else { 3200 };
    c.progs = sample(seed, 0x0500, count, &c05_cfg(), &|i| Some(TRY6[i % 6]));
    sprinkle_joiners(&mut c.progs, 5);
    c.budget = if tier == "quick" { 256 } else { 1024 };
    c.rule = "programs: random grid programs under the six try macro names, Option and Result (sync), Result (async), with recovery operators after fail points; faults: every subset of the program's decision points (initial values and W-returning callbacks) is made to fail when the program has <= log2(budget) of them (fewest failures first), otherwise sampled subsets biased to 1-3 failures; oracle: the macro's value equals the model's (all succeed => Some/Ok(tuple); else the value of the lowest-numbered branch failing in the earliest failing step; async: of some branch failing in that step), payload hash included. Non-trivial = >= 2 failing decision points, or one failure in a non-final step after a lower-numbered branch has finished".to_string();
    c
}

fn c06(tier: &str, seed: u64) -> GridCheck {
    let mut c = base_check("C06", "C06", "fault_enumeration");
    let mut cfg = c05_cfg();
    cfg.caps = 0.25;
    cfg.handler = 0.5;
    cfg.names = 0.3;
    cfg.snaps = 0.5;
    cfg.depth = (2, 4);
    let count = if tier == "quick" { 320 } else { 3200 };
    c.progs = sample(seed, 0x0600, count, &cfg, &|i| Some(TRY6[i % 6]));
    sprinkle_joiners(&mut c.progs, 5);
    c.budget = if tier == "quick" { 256 } else { 1024 };
    c.rule = "programs as C05 plus block captures, let-snapshots and map/and_then handlers in later steps; faults as C05; oracle over the event log: after the failing step no event of a later step (operand, callback, capture), no handler call; sync/thread-spawning: every active branch of the failing step has its complete callback sequence. Non-trivial = the failing step is not the last step of the program".to_string();
    c
}

pub const ALL12: [&str; 12] = MACROS;

fn c10(tier: &str, seed: u64) -> GridCheck {
    let mut c = base_check("C10", "C10", "exploration");
    let mut cfg = GenCfg::base(ALL12.to_vec());
    cfg.n = (1, 4);
    cfg.depth = (1, 3);
    cfg.cell = (0, 3);
    cfg.wrappers = 0.2;
    cfg.caps = 0.3;
    cfg.names = 0.0;
    cfg.snaps = 0.0;
    cfg.handler = 0.4;
    cfg.handler_block = 0.6;
    let count = if tier == "quick" { 480 } else { 4800 };
    c.progs = sample(seed, 0x1000, count, &cfg, &|i| Some(ALL12[i % 12]));
    sprinkle_joiners(&mut c.progs, 5);
    c.budget = if tier == "quick" { 32 } else { 128 };
    c.features = vec!["clonetok"];
    c.rule = "programs: random grid programs under all 12 macro names with all grid operators, wrappers, steps, block captures, handlers (block handlers log their own evaluation); values are clone-counting drop-counting tokens; inputs: the all-succeed plan plus sampled/enumerated failure plans; oracle: the multiset of all evaluation events (initial value, operand expression, callback call, capture, snapshot, handler expression, handler call) equals the model's, per-branch callback order equals the model's, clone counter == 0, live tokens == 0 after the result is dropped. Non-trivial = program contains a `??` and a block capture".to_string();
    c
}

fn c11(tier: &str, seed: u64) -> GridCheck {
    let mut c = base_check("C11", "C11", "exploration");
    let mut cfg = GenCfg::base(ALL12.to_vec());
    cfg.n = (1, 5);
    cfg.depth = (1, 4);
    cfg.cell = (0, 3);
    cfg.wrappers = 0.25;
    cfg.caps = 0.5;
    cfg.names = 0.2;
    cfg.snaps = 0.3;
    cfg.handler = 0.2;
    let count = if tier == "quick" { 480 } else { 4800 };
    c.progs = sample(seed, 0x1100, count, &cfg, &|i| Some(ALL12[i % 12]));
    // a third of the sync programs run their branches through a custom joiner (sequential macros:
    // lazy branches called in reverse order; thread-spawning macros: the handles passed through) -
    // block operands are still evaluated before the step, not where the joiner runs the branch
    for (i, p) in c.progs.iter_mut().enumerate() {
        let k = p.kind();
        if k.is_async || (i / 12) % 3 != 1 || p.branches.len() > 8 {
            continue;
        }
        if k.is_spawn {
            p.opts.joiner = Some("jv_join".to_string());
            p.opts.order = vec![1];
        } else {
            p.opts.joiner = Some("jv_join_lazy".to_string());
            p.opts.lazy = Some(true);
            p.opts.order = vec![1, 3];
        }
    }
    c.budget = if tier == "quick" { 16 } else { 64 };
    c.rule = "programs: random grid programs under all 12 macro names with block operands on every hoistable grid position (initial values, |> => ?> ?? -> <| <= !> operands, also inside nested wrappers), several per branch and step; a third of the sync programs use a custom joiner (lazy branches called in reverse order / thread handles passed through); oracle over the event log: the capture phase of each executed step (cap, snapshots, construction of the wrapped operand) happens exactly once, in branch-then-position order, after every event of earlier steps and before every other event of its own step. Non-trivial = a step with captures from two different branches".to_string();
    c
}

fn c12(tier: &str, seed: u64) -> GridCheck {
    let mut c = base_check("C12", "C12", "exploration");
    let mut cfg = GenCfg::base(KINDS8.to_vec());
    cfg.n = (2, 5);
    cfg.depth = (1, 4);
    cfg.cell = (0, 2);
    cfg.wrappers = 0.1;
    cfg.caps = 0.5;
    cfg.names = 0.7;
    cfg.snaps = 0.9;
    cfg.handler = 0.2;
    let count = if tier == "quick" { 480 } else { 4800 };
    c.progs = sample(seed, 0x1200, count, &cfg, &|i| Some(KINDS8[i % 8]));
    sprinkle_joiners(&mut c.progs, 5);
    c.budget = if tier == "quick" { 16 } else { 64 };
    c.rule = "programs: random grid programs under the eight macro kinds, random subsets of branches named with let / let mut, block captures in steps >= 1 of any branch snapshot random named branches (also ones that have finished); oracle: each snapshot equals the named branch's most recent step result (wrapped), and the macro's value equals the model's (which ignores names). Non-trivial = a snapshot taken in a step >= 1".to_string();
    c
}

fn c13(tier: &str, seed: u64) -> GridCheck {
    let mut c = base_check("C13", "C13", "exploration");
    let mut cfg = GenCfg::base(ALL12.to_vec());
    cfg.n = (1, 5);
    cfg.depth = (1, 3);
    cfg.cell = (0, 2);
    cfg.wrappers = 0.05;
    cfg.caps = 0.1;
    cfg.names = 0.1;
    cfg.handler = 1.0;
    cfg.recover = 0.5;
    let count = if tier == "quick" { 360 } else { 3600 };
    c.progs = sample(seed, 0x1300, count, &cfg, &|i| Some(ALL12[i % 12]));
    sprinkle_joiners(&mut c.progs, 5);
    c.budget = if tier == "quick" { 64 } else { 512 };
    c.rule = "programs: random grid programs under all 12 macro names, each with the handler kind legal for it (map / and_then for try, then otherwise) at a random position among 1-5 branches; inputs: enumerated / sampled failure plans (handler outcome included); oracle: handler-call events (exactly once with the unwrapped values in branch order iff all branches succeeded, `then` always once with the raw values), the handler's future is run in async macros, the macro's value is the model's. Non-trivial = handler not in last position, or a failing plan".to_string();
    c
}

fn c03(tier: &str, seed: u64) -> GridCheck {
    let mut c = base_check("C03", "C03", "exploration");
    let mut cfg = GenCfg::base(KINDS8.to_vec());
    cfg.n = (1, 5);
    cfg.depth = (1, 4);
    cfg.cell = (0, 2);
    cfg.wrappers = 0.1;
    cfg.caps = 0.2;
    cfg.names = 0.1;
    cfg.handler = 0.2;
    cfg.equal_depths = 0.3;
    let count = if tier == "quick" { 320 } else { 4000 };
    c.progs = sample(seed, 0x0300, count, &cfg, &|i| Some(KINDS8[i % 8]));
    sprinkle_joiners(&mut c.progs, 5);
    c.budget = if tier == "quick" { 24 } else { 120 };
    c.rule = "programs: random grid programs under the eight macro kinds, unequal depths in most, `~` at generated positions. Schedules: thread-spawning macros - one gated callback per (branch, step) cell (first / middle / last callback), per step a release permutation of the active branches (all combinations when within the budget, proptest-shuffled otherwise); async / task-spawning macros - every future-returning callback awaits a gate, wake-up orders enumerated systematically (odometer over choice points) then randomised with batches and spurious polls; sequential macros - program order. Oracle: while any branch is still blocked in step k no event of a later step exists and the macro has not returned (checked by the controller at rendezvous and before the last release); over the final log every event of step k precedes every event of step k+1. A run is one (program, schedule); non-trivial = >=2 branches, >=2 steps, unequal depths or a non-identity order".to_string();
    c
}

fn c08(tier: &str, seed: u64) -> GridCheck {
    let mut c = base_check("C08", "C08", "exploration");
    let mut cfg = GenCfg::base(vec!["join_spawn", "try_join_spawn", "spawn", "try_spawn"]);
    cfg.n = (1, 6);
    cfg.depth = (1, 4);
    cfg.cell = (0, 2);
    cfg.wrappers = 0.05;
    cfg.caps = 0.1;
    cfg.names = 0.1;
    cfg.handler = 0.2;
    cfg.equal_depths = 0.15;
    let count = if tier == "quick" { 240 } else { 3000 };
    let macs = ["join_spawn", "try_join_spawn", "spawn", "try_spawn"];
    c.progs = sample(seed, 0x0800, count, &cfg, &|i| Some(macs[i % 4]));
    // a few wide programs: two-digit branch indices in the thread names
    let mut wide = cfg.clone();
    wide.n = (11, 14);
    wide.depth = (1, 2);
    wide.cell = (0, 1);
    wide.wrappers = 0.0;
    wide.caps = 0.0;
    c.progs.extend(sample(seed, 0x0801, if tier == "quick" { 8 } else { 48 }, &wide, &|i| Some(macs[i % 4])));
    // a third of the programs pass the thread handles through a custom joiner: the threads of a step
    // must be alive at the same time with it too
    for (i, p) in c.progs.iter_mut().enumerate() {
        if (i / 4) % 3 == 1 && p.branches.len() <= 8 {
            p.opts.joiner = Some("jv_join".to_string());
            p.opts.order = vec![1];
        }
    }
    c.budget = if tier == "quick" { 24 } else { 120 };
    c.rule = "programs: random grid programs under join_spawn / try_join_spawn / spawn / try_spawn, 1-6 branches (a few with 11-14), depth profiles with single-active-branch steps, a third of them with a custom joiner that passes the thread handles through; the macro is evaluated on a harness thread that is unnamed or named (`main`, `w_join_3` = the name a nested spawn macro's branch thread has, a name with odd characters, the empty name, a non-ASCII name). Schedules as C03 (gated callbacks, release permutations). Oracle: rendezvous - with all gates of a multi-branch step held closed every active branch arrives (distinct threads, none the caller's; a branch waiting for a sibling could never arrive); every callback of branch i in such a step runs on a thread named `<caller>_join_<i>` / `join_<i>`; a single active branch runs on the calling thread; the caller has not continued before the last release. Non-trivial = a multi-branch step together with a single-active step or a nested-style caller name".to_string();
    c.assumptions.push("nesting of spawn macros is represented by evaluating the macro on a thread that carries the name a nested branch thread would have (real nesting is exercised by C17)".to_string());
    c
}

fn c09(tier: &str, seed: u64) -> GridCheck {
    let mut c = base_check("C09", "C09", "exploration");
    let macs = ["join_async", "try_join_async", "join_async_spawn", "try_join_async_spawn", "async_spawn", "try_async_spawn"];
    let mut cfg = GenCfg::base(macs.to_vec());
    cfg.n = (1, 4);
    cfg.depth = (1, 3);
    cfg.cell = (0, 2);
    cfg.wrappers = 0.1;
    cfg.caps = 0.15;
    cfg.names = 0.1;
    cfg.handler = 0.3;
    cfg.handler_block = 0.7;
    let count = if tier == "quick" { 240 } else { 3000 };
    c.progs = sample(seed, 0x0900, count, &cfg, &|i| Some(macs[i % 6]));
    // task-spawning macros: a quarter of the programs use a custom joiner that awaits the spawned
    // branches one after the other - the tasks must nevertheless all be running
    for (i, p) in c.progs.iter_mut().enumerate() {
        let k = p.kind();
        if k.is_spawn && (i / 6) % 4 == 1 && p.branches.len() <= 8 && p.flavor == Flavor::Res {
            p.opts.joiner = Some(if k.is_try { "jv_atryseq" } else { "jv_aseq" }.to_string());
            p.opts.order = vec![1];
        }
    }
    c.budget = if tier == "quick" { 48 } else { 256 };
    c.rule = "programs: random grid programs under the six async macro names; every future-returning harness callback (initial values, and_then / or_else / then / `->` callbacks, handlers) awaits a gate. Schedules: wake-up orders enumerated systematically (odometer over the choice points met), then random orders with batches (two gates opened before the next poll) and spurious polls; gate selection all / first / last of each cell; a quarter of the task-spawning programs use a custom joiner that awaits the spawned branches one after the other. The future is built in the context of a second, idle runtime and polled on another. Oracle under the deterministic executor: (a) building - and dropping - the future logs nothing (also outside any runtime); (b) once a step starts every active branch reaches its first pending point; (c) opening a gate notifies the macro's future (non-spawn) ; (d) the branch whose gate opened reaches its next pending point although siblings are pending; (e) the future is never left pending with every gate open and no wake-up outstanding, and completes with the model's value. Non-trivial = >=2 branches, >=2 decisions, gates opened out of index order".to_string();
    c
}

pub const CLASSES: [[&str; 3]; 4] = [
    ["join", "join_spawn", "spawn"],
    ["try_join", "try_join_spawn", "try_spawn"],
    ["join_async", "join_async_spawn", "async_spawn"],
    ["try_join_async", "try_join_async_spawn", "try_async_spawn"],
];

/// C07 cross-case oracle: groups of three consecutive cases = (plain, spawn, alias)
pub fn c07_post(progs: &[Prog], reports: &[serde_json::Value]) -> Vec<(usize, serde_json::Value)> {
    use serde_json::json;
    let mut by_case: std::collections::HashMap<usize, &serde_json::Value> = std::collections::HashMap::new();
    for r in reports {
        by_case.insert(r["case"].as_u64().unwrap_or(0) as usize, r);
    }
    let mut out = Vec::new();
    for g in 0..progs.len() / 3 {
        let (ip, is, ia) = (3 * g, 3 * g + 1, 3 * g + 2);
        let (Some(rp), Some(rs), Some(ra)) = (by_case.get(&ip), by_case.get(&is), by_case.get(&ia)) else { continue };
        let kind = progs[ip].kind();
        let (dp, ds, da) = (rp["c07"]["digests"].as_array(), rs["c07"]["digests"].as_array(), ra["c07"]["digests"].as_array());
        let (Some(dp), Some(ds), Some(da)) = (dp, ds, da) else { continue };
        if dp.len() != ds.len() || ds.len() != da.len() {
            out.push((ia, json!({"oracles": ["agreement"], "details": [format!("different numbers of runs in one class: {} {} {}", dp.len(), ds.len(), da.len())]})));
            continue;
        }
        let mut bad: Option<(usize, String)> = None;
        for j in 0..dp.len() {
            let (p, s, a) = (&dp[j], &ds[j], &da[j]);
            if p["out"] != s["out"] {
                bad = Some((is, format!("plan {}: {}! gives {} but {}! gives {}", p["bad"], progs[ip].mac, p["out_text"], progs[is].mac, s["out_text"])));
                break;
            }
            if s["out"] != a["out"] {
                bad = Some((ia, format!("plan {}: {}! gives {} but its alias {}! gives {}", p["bad"], progs[is].mac, s["out_text"], progs[ia].mac, a["out_text"])));
                break;
            }
            if s["full"] != a["full"] || s["sig"] != a["sig"] {
                bad = Some((ia, format!("plan {}: alias {}! differs from {}! in callback sequences or thread signature", p["bad"], progs[ia].mac, progs[is].mac)));
                break;
            }
            // a try-async step that fails may drop siblings half way (plain) or let tasks finish (spawned)
            let partial_ok = kind.is_async && kind.is_try && p["failed"] == true;
            if !partial_ok && p["full"] != s["full"] {
                bad = Some((is, format!("plan {}: per-branch callback sequences of {}! and {}! differ", p["bad"], progs[ip].mac, progs[is].mac)));
                break;
            }
        }
        if bad.is_none() {
            let (dp, ds, da) = (&rp["c07"]["deep"], &rs["c07"]["deep"], &ra["c07"]["deep"]);
            let timeout = |v: &serde_json::Value| v == "timeout";
            if !(timeout(dp) || timeout(ds) || timeout(da)) && (dp != ds || ds != da) {
                bad = Some((is, format!("with every callback using 256 KiB of stack: {}! {}, {}! {}, {}! {}", progs[ip].mac, dp, progs[is].mac, ds, progs[ia].mac, da)));
            }
        }
        if bad.is_none() {
            let (np, ns, na) = (&rp["c07"]["named"], &rs["c07"]["named"], &ra["c07"]["named"]);
            let timeout = |v: &serde_json::Value| v == "timeout";
            if !(timeout(np) || timeout(ns) || timeout(na)) && (np != ns || ns != na) {
                bad = Some((is, format!("evaluated on a thread with a long non-ASCII name: {}! {}, {}! {}, {}! {}", progs[ip].mac, np, progs[is].mac, ns, progs[ia].mac, na)));
            }
        }
        if bad.is_none() && (rp["c07"]["outside"] != rs["c07"]["outside"] || rs["c07"]["outside"] != ra["c07"]["outside"]) {
            bad = Some((is, format!("single-branch program driven outside any runtime: {}! {}, {}! {}, {}! {}", progs[ip].mac, rp["c07"]["outside"], progs[is].mac, rs["c07"]["outside"], progs[ia].mac, ra["c07"]["outside"])));
        }
        if bad.is_none() && (rp["c07"]["gated"] != rs["c07"]["gated"] || rs["c07"]["gated"] != ra["c07"]["gated"]) {
            bad = Some((
                is,
                format!(
                    "a branch fails while its siblings are pending: {}! {} / {}! {} / {}! {}",
                    progs[ip].mac, rp["c07"]["gated"], progs[is].mac, rs["c07"]["gated"], progs[ia].mac, ra["c07"]["gated"]
                ),
            ));
        }
        if bad.is_none() && rs["c07"]["spawn_sig"] != ra["c07"]["spawn_sig"] {
            bad = Some((ia, format!("alias {}! reaches {} pending points within the first poll, {}! reaches {}: one spawns tasks, the other does not", progs[ia].mac, ra["c07"]["spawn_sig"], progs[is].mac, rs["c07"]["spawn_sig"])));
        }
        if let Some((i, d)) = bad {
            out.push((i, json!({"oracles": ["agreement"], "details": [d]})));
        }
    }
    out
}

pub fn post_for(id: &str) -> Option<fn(&[Prog], &[serde_json::Value]) -> Vec<(usize, serde_json::Value)>> {
    match id {
        "C07" => Some(c07_post),
        _ => None,
    }
}

fn c07(tier: &str, seed: u64) -> GridCheck {
    let mut c = base_check("C07", "C07", "exploration");
    let mut cfg = GenCfg::base(vec!["join"]);
    cfg.n = (1, 5);
    cfg.depth = (1, 3);
    cfg.cell = (0, 3);
    cfg.wrappers = 0.15;
    cfg.caps = 0.15;
    cfg.names = 0.15;
    cfg.handler = 0.3;
    cfg.recover = 0.6;
    let count = if tier == "quick" { 200 } else { 2000 };
    let mut progs = Vec::new();
    let mut base = sample(seed, 0x0700, count, &cfg, &|i| Some(CLASSES[i % 4][0]));
    // wide programs: two-digit branch indices (thread names, per-branch result names, tuple positions)
    let mut wide = cfg.clone();
    wide.n = (11, 16);
    wide.depth = (1, 2);
    wide.cell = (0, 1);
    wide.wrappers = 0.0;
    wide.equal_depths = 0.4;
    base.extend(sample(seed, 0x0701, if tier == "quick" { 12 } else { 80 }, &wide, &|i| Some(CLASSES[i % 4][0])));
    for p in base {
        let class = CLASSES.iter().find(|c| c[0] == p.mac).unwrap();
        for m in class {
            let mut q = p.clone();
            q.mac = m.to_string();
            progs.push(q);
        }
    }
    c.progs = progs;
    c.group = 3;
    c.post = Some(c07_post);
    c.batch_size = 480;
    c.budget = if tier == "quick" { 64 } else { 256 };
    c.rule = "programs: random grid programs (values Send + 'static, branches do not communicate), each rendered under the three macro names of its class {plain, spawn, alias}, a few of them wide (11-16 branches); inputs: the same enumerated / sampled failure plans for all three. Oracle (metamorphic, no model involved): equal results across the three; equal per-branch callback sequences between plain and spawn (except in a failing step of a try-async macro); alias and canonical spawn macro equal in result, callback sequences, thread-name signature (sync) and first-poll arrival count (async: spawned vs not spawned); the all-succeed run repeated in a child process with every callback using 256 KiB of stack completes under all three names or under none; the all-succeed run on a calling thread with a long non-ASCII name gives the same outcome and callback set under all three; the expected result type is ascribed, so an alias wired to the wrong configuration fails to compile. A run is one (program, macro name, plan); non-trivial = >=2 branches and a multi-branch step".to_string();
    c
}

fn c18(tier: &str, seed: u64) -> GridCheck {
    let mut c = base_check("C18", "C18", "fault_enumeration");
    let mut cfg = GenCfg::base(ALL12.to_vec());
    cfg.n = (1, 4);
    cfg.depth = (1, 3);
    cfg.cell = (0, 2);
    cfg.wrappers = 0.2;
    cfg.caps = 0.35;
    cfg.names = 0.1;
    cfg.handler = 0.4;
    cfg.handler_block = 0.5;
    let count = if tier == "quick" { 192 } else { 1920 };
    c.progs = sample(seed, 0x1800, count, &cfg, &|i| Some(ALL12[i % 12]));
    sprinkle_joiners(&mut c.progs, 5);
    c.budget = if tier == "quick" { 60 } else { 300 };
    c.rule = "programs: random grid programs under all 12 macro names; faults: every single evaluation event of the program under the all-succeed plan (initial value, operand expression, callback call, block capture, handler expression, handler call) in turn panics with a typed payload; then, except for the async try macros (which drop the siblings of a failing branch half way), the evaluation events under one plan with a failing callback, handler and capture positions first. Sync / thread-spawning macros: each injected evaluation runs in a child process of the generated binary under catch_unwind; async macros: deterministic executor with gated callbacks and a wake-up order derived from the position, each poll under catch_unwind. Thread-spawning macros: the later sibling threads of the panicking branch are parked in their first callback of the step and released only when the caller has got control back. Oracle: the panic is observed by the caller (macro expression / poll panics); no event of a later step than the injected one exists; threads: the caller returns while the later siblings are still parked (blocked = still not back after 3 s and, in a confirming second run, after 12 s); async: once the panic has been raised the future panics at its next poll without any further pending point being opened, and is never left pending with every gate open and no wake-up outstanding. A run is one (program, injection point); non-trivial = injection in a multi-branch step of a spawn variant, or in a step > 0".to_string();
    c.assumptions.push("sync macros: a child that does not return within 40 s is reported as inconclusive (exit 2), not as a violation".to_string());
    c
}

fn c19(tier: &str, seed: u64) -> GridCheck {
    let mut c = base_check("C19", "C19", "exploration");
    let mut cfg = GenCfg::base(vec!["join", "try_join"]);
    cfg.n = (1, 6);
    cfg.depth = (1, 4);
    cfg.cell = (0, 3);
    cfg.wrappers = 0.2;
    cfg.caps = 0.2;
    cfg.names = 0.3;
    cfg.snaps = 0.5;
    cfg.handler = 0.4;
    let count = if tier == "quick" { 480 } else { 4800 };
    c.progs = sample(seed, 0x1900, count, &cfg, &|i| Some(["join", "try_join"][i % 2]));
    // wide programs too: per-step bookkeeping over many branches must stay on the stack
    let mut wide = cfg.clone();
    wide.n = (20, 40);
    wide.depth = (1, 3);
    wide.cell = (0, 1);
    wide.wrappers = 0.0;
    wide.equal_depths = 0.5;
    c.progs.extend(sample(seed, 0x1901, if tier == "quick" { 24 } else { 120 }, &wide, &|i| Some(["join", "try_join"][i % 2])));
    c.budget = if tier == "quick" { 24 } else { 96 };
    c.features = vec!["countalloc"];
    c.rule = "allocation stage: random grid programs under join! / try_join! (1-6 branches, 1-4 steps, wrappers, block captures, let names, handlers; plus wide ones with 20-40 branches) whose user code (harness callbacks over move-only tokens, event log switched to a preallocated buffer) performs no heap allocation; inputs: the all-succeed plan plus enumerated / sampled failure plans; oracle: the per-thread allocation counter of a counting global allocator does not change across the macro expression (and the value is the model's, so the measured evaluation did what it should). Non-trivial = >= 2 branches, >= 2 steps and a `??`".to_string();
    c.assumptions.push("allocations are counted on the evaluating thread only; the sequential macros do not use other threads".to_string());
    c
}

fn c17(tier: &str, seed: u64) -> GridCheck {
    let mut c = base_check("C17", "C17", "exploration");
    // wide and long programs with block captures on most operand positions: any two capture /
    // result / thread-builder names that collide make a branch use another branch's closure or value
    let mut cfg = GenCfg::base(KINDS8.to_vec());
    cfg.n = (9, 24);
    cfg.depth = (1, 3);
    cfg.cell = (4, 24);
    cfg.wrappers = 0.1;
    cfg.caps = 0.7;
    cfg.names = 0.1;
    cfg.snaps = 0.2;
    cfg.handler = 0.3;
    cfg.equal_depths = 0.3;
    let count = if tier == "quick" { 48 } else { 480 };
    const SYNC4: [&str; 4] = ["join", "try_join", "join_spawn", "try_join_spawn"];
    const ASYNC4: [&str; 4] = ["join_async", "try_join_async", "join_async_spawn", "try_join_async_spawn"];
    // sync and thread-spawning macros: the full index range (cheap to compile)
    let mut progs = sample(seed, 0x1700, count, &cfg, &|i| Some(SYNC4[i % 4]));
    // plus mid-sized ones (index pairs like 1|11 vs 11|1 need >= 12 branches / actions only on one side)
    let mut cfg2 = cfg.clone();
    cfg2.n = (2, 13);
    cfg2.cell = (8, 24);
    progs.extend(sample(seed, 0x1701, count, &cfg2, &|i| Some(SYNC4[i % 4])));
    // async macros: the same name constructors are used; smaller programs (they compile slowly)
    let mut cfg3 = cfg.clone();
    cfg3.n = (9, 13);
    cfg3.depth = (1, 2);
    cfg3.cell = (2, 12);
    progs.extend(sample(seed, 0x1702, count / 2, &cfg3, &|i| Some(ASYNC4[i % 4])));
    c.progs = progs;
    c.budget = if tier == "quick" { 6 } else { 16 };
    c.batch_size = 128;
    c.rule = "index stage: grid programs with 9-24 branches x up to 24 actions per step (and 2-13 branches x 8-24 actions) under the eight macro kinds, block captures on 70 % of the operand positions (every capture returns a callback with its own id), thread-spawning macros with >= 11 branches; oracle: the macro's value and every branch's callback sequence equal the model's - a clash between any two generated names (captures, per-branch results, step results, thread builders) makes a branch use another position's closure or value. Non-trivial = >= 2 branches".to_string();
    c
}

/// C16 programs: a grid program plus an option prefix legal for its macro kind
fn c16_progs(seed: u64, count: usize, fx: bool) -> Vec<Prog> {
    let mut runner = new_runner(seed, if fx { 0x16f } else { 0x160 }, 1);
    let mut out = Vec::new();
    for i in 0..count {
        let mac = if fx { ["join_async", "try_join_async", "join_async_spawn", "try_join_async_spawn", "async_spawn", "try_async_spawn"][i % 6] } else { KINDS8[i % 8] };
        let kind = macro_kind(mac);
        // variant of the option set
        let variant = (i / 8) % 4;
        let mut cfg = GenCfg::base(vec![mac]);
        cfg.n = (1, 6);
        cfg.depth = (1, 3);
        cfg.cell = (0, 2);
        cfg.wrappers = 0.05;
        cfg.caps = 0.15;
        cfg.names = 0.1;
        cfg.handler = 0.3;
        cfg.equal_depths = 0.2;
        let mut opts = Opts::default();
        if fx {
            // (every other program spells the path as a single identifier: `use jvrt::fx as jvfx;`)
            opts.futures_path = Some(if (i / 6) % 2 == 1 { "jvfx".to_string() } else { "::jvrt::fx".to_string() });
            if variant == 1 && kind.is_try {
                opts.transpose = Some(false); // the default for try async, written out
            }
        } else if !kind.is_async && !kind.is_spawn {
            match variant {
                0 => opts.joiner = Some("jv_join".into()),
                1 => {
                    opts.joiner = Some("jv_join_lazy".into());
                    opts.lazy = Some(true);
                }
                2 if kind.is_try => {
                    // the joiner returns the already transposed Result; single-step programs only
                    // (multi-step / unequal depths: known finding D3, excluded by construction)
                    opts.joiner = Some("jv_tjoin".into());
                    opts.transpose = Some(false);
                    cfg.allow_opt = false;
                    cfg.depth = (1, 1);
                    cfg.n = (2, 6);
                }
                2 => {
                    opts.joiner = Some("jv_join".into());
                    opts.lazy = Some(false);
                }
                _ => {
                    // explicit defaults only
                    opts.lazy = Some(false);
                    if kind.is_try {
                        opts.transpose = Some(true);
                    }
                }
            }
        } else if !kind.is_async {
            match variant {
                2 => {
                    // explicit lazy_branches(false): the branch expressions themselves go to the threads
                    // (every step ends in `-> defer`); all branches active in every step
                    opts.lazy = Some(false);
                    cfg.equal_depths = 1.0;
                    cfg.n = (2, 6);
                }
                0 => opts.joiner = Some("jv_join".into()),
                1 => {
                    opts.joiner = Some("jv_join".into());
                    opts.lazy = Some(true);
                }
                _ => {
                    opts.lazy = Some(true);
                    if kind.is_try {
                        opts.transpose = Some(true);
                    }
                }
            }
        } else {
            match variant {
                2 if kind.is_try => {
                    // a joiner that returns the tuple of Results, transposed by the macro in every step
                    opts.joiner = Some("jv_ajoin".into());
                    opts.transpose = Some(true);
                }
                0 | 2 => opts.joiner = Some(if kind.is_try { "jv_atry" } else { "jv_ajoin" }.into()),
                1 => {
                    opts.joiner = Some(if kind.is_try { "jv_atry" } else { "jv_ajoin" }.into());
                    if kind.is_try {
                        opts.transpose = Some(false);
                    }
                    opts.lazy = Some(false);
                }
                _ => {
                    opts.lazy = Some(false);
                    opts.futures_path = Some("::futures".to_string());
                    if kind.is_try {
                        opts.transpose = Some(false);
                    }
                }
            }
        }
        if opts.joiner.is_some() && (kind.is_async || opts.joiner.as_deref() == Some("jv_tjoin")) {
            cfg.allow_opt = false;
        }
        let strat = gen::prog_strategy(cfg.clone(), Some(mac));
        let mut p = None;
        for _ in 0..50 {
            let q = strat.new_tree(&mut runner).expect("generation cannot fail").current();
            if gen::is_d4(&q) {
                EXCLUDED_D4.fetch_add(1, std::sync::atomic::Ordering::SeqCst);
                continue;
            }
            p = Some(q);
            break;
        }
        let mut p = p.expect("program");
        if kind.is_spawn && !kind.is_async && opts.lazy == Some(false) {
            // `-> defer` must follow the step's last action at the top level
            for b in p.branches.iter_mut() {
                for cell in b.steps.iter_mut() {
                    if let Some(a) = cell.last_mut() {
                        a.closed = true;
                    }
                }
            }
        }
        // a random order of the options that are present
        let mut order: Vec<u8> = vec![0, 1, 2, 3];
        let r = i / 3;
        order.rotate_left(r % 4);
        if (i / 5) % 2 == 1 {
            order.reverse();
        }
        opts.order = order;
        p.opts = opts;
        out.push(p);
    }
    out
}

fn c16(tier: &str, seed: u64, fx: bool) -> GridCheck {
    let mut c = base_check("C16", "C16", "exploration");
    let count = if tier == "quick" { if fx { 96 } else { 384 } } else if fx { 960 } else { 3840 };
    c.progs = c16_progs(seed, count, fx);
    c.budget = if tier == "quick" { 32 } else { 128 };
    if fx {
        c.extra_deps = "#nofutures".to_string();
    }
    c.rule = if fx {
        "futures-path stage: random grid programs under the six async macro names with `futures_crate_path(::jvrt::fx)` (a stand-in whose join! / try_join! log their use), compiled in a crate that has NO dependency called `futures`, so any hard-coded `::futures` path fails to compile; oracle: the shim's join!/try_join! is used exactly once per executed step with more than one active branch, and the value is the model's. Non-trivial = a multi-step program with a single-active step, or >= 2 options".to_string()
    } else {
        "runtime stage: random grid programs (1-6 branches, 1-3 steps, differing depths incl. single-active steps) under the eight macro kinds with an option prefix legal for the kind, options written in rotated / reversed orders: sync - eager logging joiner, lazy joiner (receives closures, calls them in reverse order) with lazy_branches(true), self-transposing joiner with transpose_results(false) (single-step programs), explicit defaults only; thread-spawning - joiner passing the thread handles through, with / without explicit lazy_branches(true), explicit lazy_branches(false) (every step of every branch then ends in `-> defer`, a closure returning the value, which the macro has to hand to the thread as it is); async / task-spawning - joiners wrapping join! / try_join! that tag each output, explicit transpose_results(false) / lazy_branches(false) / futures_crate_path(::futures). Inputs: enumerated / sampled failure plans. Oracle: the joiner is invoked exactly once per executed step with more than one active branch, with that arity, never for a single active branch; every argument is evaluated once; with lazy_branches(true) everything a branch does happens while the joiner calls that branch's thunk (nothing earlier); the values that continue carry the joiner's position tags, so argument p was the p-th active branch and the joiner's output was used; the macro's value is the model's - so explicit defaults behave like omitted options. Non-trivial = >= 2 options, or an option together with a single-active step".to_string()
    };
    c
}

pub fn build(id: &str, tier: &str, seed: u64) -> Option<GridCheck> {
    Some(match id {
        "C16" => c16(tier, seed, false),
        "C16fx" => {
            let mut c = c16(tier, seed, true);
            c.id = "C16".to_string();
            c
        }
        "C17" => c17(tier, seed),
        "C19" => c19(tier, seed),
        "C07" => c07(tier, seed),
        "C18" => c18(tier, seed),
        "C03" => c03(tier, seed),
        "C08" => c08(tier, seed),
        "C09" => c09(tier, seed),
        "C10" => c10(tier, seed),
        "C11" => c11(tier, seed),
        "C12" => c12(tier, seed),
        "C13" => c13(tier, seed),
        "C04" => c04(tier, seed),
        "C05" => c05(tier, seed),
        "C06" => c06(tier, seed),
        _ => return None,
    })
}

pub fn run(id: &str, tier: &str, seed: u64) -> i32 {
    if id == "C19" {
        render::MEASURE_ALLOC.store(true, std::sync::atomic::Ordering::SeqCst);
    }
    match build(id, tier, seed) {
        Some(c) => {
            let code = grid::run(c, tier, seed);
            if id == "C16" && !probe_known("C16") && code == 0 {
                return 2;
            }
            code
        }
        None => {
            eprintln!("no engine-R check for {}", id);
            2
        }
    }
}

/// Prints a few generated programs of a check (for eyeballing the generator).
pub fn show(id: &str, tier: &str, seed: u64) -> i32 {
    match build(id, tier, seed) {
        Some(c) => {
            for p in c.progs.iter().take(12) {
                println!("{}", render::case_fn(p, 0));
            }
            println!("// {} programs", c.progs.len());
            0
        }
        None => 2,
    }
}


/// Builds one small generated crate (sync + async case, both jvrt feature sets) so that the
/// dependencies of generated crates are compiled into the shared target directory.
pub fn warm() -> i32 {
    let cfg = GenCfg::base(KINDS8.to_vec());
    let progs = sample(1, 0x77, 8, &cfg, &|i| Some(KINDS8[i % 8]));
    let mut code = 0;
    for feats in [vec![], vec!["clonetok"]] {
        let r = grid::build_and_run("jvb_warm", &progs, "C04", 4, 1, &feats, 120, &[], 2);
        if !r.infra.is_empty() || !r.compile_fail.is_empty() {
            eprintln!("warm-up problems: {:?} {:?}", r.infra, r.compile_fail);
            code = 2;
        }
    }
    println!("setup: generated-crate dependencies built");
    code
}

/// Known-finding probes: the specific input of an open finding is compiled against the current
/// tree. While it still fails the way the finding says, the KNOWN-FINDING line is printed; once it
/// compiles the finding is gone and nothing is printed. Returns false on an infrastructure problem.
pub fn probe_known(property: &str) -> bool {
    let known = crate::evid::Known::load();
    let probes: Vec<(&str, &str, &str)> = vec![
        (
            "C02",
            "try-async/step>=1/error-type-used-before-pinned",
            "fn case_0() -> LocalBoxFuture<'static, Out> {\n    use jvrt::cb::ar::*;\n    let __fut = ::join::try_join_async! {\n        init(1) ~<= >>> ..bump(3) -> tw(5) <<<\n    };\n    Box::pin(async move { let r: Result<Tok, Tok> = __fut.await; match r { Ok(v0) => Out::Toks(vec![v0.h]), Err(e) => Out::One(Val::Err(e.h)) } })\n}\n",
        ),
        (
            "C16",
            "sync-try/transpose_results(false)/custom-joiner/unequal-depths",
            "fn case_0() -> LocalBoxFuture<'static, Out> {\n    use jvrt::cb::r::*;\n    let __res = ::join::try_join! {\n        custom_joiner(jvrt::jv_tjoin!)\n        transpose_results(false)\n        init(1),\n        init(2) ~-> |t: Tok| -> W {{ xa(3, t) }},\n        init(4) ~-> |t: Tok| -> W {{ xa(5, t) }}\n    };\n    let r: Result<(Tok, Tok, Tok), Tok> = __res;\n    Box::pin(async move { match r { Ok((a, b, c)) => Out::Toks(vec![a.h, b.h, c.h]), Err(e) => Out::One(Val::Err(e.h)) } })\n}\n",
        ),
    ];
    let mut ok = true;
    for (prop, sig, code) in probes {
        if prop != property {
            continue;
        }
        let Some(entry) = known.open(prop, sig) else { continue };
        let code = code.replace("{{", "{").replace("}}", "}");
        let case = crate::batch::CaseSrc { idx: 0, code, table: String::new(), ref_from: None, ctl_from: None };
        let main = |_: &[&crate::batch::CaseSrc]| "fn main() { let _ = case_0; }\n".to_string();
        let res = crate::batch::build_and_run_src(&format!("jvp_{}", prop.to_lowercase()), render::file_header(), &[case], &main, &[], &[], "", 120, 1);
        if !res.compile_fail.is_empty() {
            println!("KNOWN-FINDING: property={} {} [probe input still fails to compile: {}]", prop, entry["what"].as_str().unwrap_or(""), res.compile_fail.values().next().and_then(|v| v.first()).cloned().unwrap_or_default());
        } else if !res.infra.is_empty() && res.reports.is_empty() {
            // the probe binary prints nothing; an empty report list with a build error is an infrastructure problem
            if res.infra.iter().any(|i| i.contains("build failed")) {
                eprintln!("known-finding probe for {} could not be built: {:?}", prop, res.infra);
                ok = false;
            }
        }
    }
    ok
}
