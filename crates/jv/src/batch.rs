//! Engine R: write a generated crate (16 binaries), build it against the repository's
//! proc-macros, classify compile errors per case, run the binaries, collect their reports.

use serde_json::Value;
use std::collections::{BTreeMap, BTreeSet};
use std::fs;
use std::path::{Path, PathBuf};
use std::process::{Command, Stdio};

pub fn repo() -> String {
    std::env::var("VERIF_REPO").unwrap_or_else(|_| "/repo".to_string())
}

pub fn verif_root() -> PathBuf {
    PathBuf::from(std::env::var("VERIF_ROOT").unwrap_or_else(|_| "/verif".to_string()))
}

fn repo_tag() -> String {
    let r = repo();
    if r == "/repo" {
        "repo".to_string()
    } else {
        format!("alt{:x}", jvrt::tok::mixf(r.len() as u64, r.bytes().fold(0u32, |a, b| a.wrapping_mul(31).wrapping_add(b as u32))) & 0xffffff)
    }
}

pub fn gen_target_dir() -> PathBuf {
    verif_root().join("target").join(format!("gen-{}", repo_tag()))
}

pub struct CaseSrc {
    pub idx: usize,
    /// source of the case function(s)
    pub code: String,
    /// entry in the case table (`Case { .. }`) or other per-case registration line
    pub table: String,
    /// line (relative to the start of `code`) at which the reference side of a differential case
    /// starts: compile errors from there on are generator bugs, not violations
    pub ref_from: Option<usize>,
    /// line at which the control side starts (between the macro side and the reference side):
    /// a case whose control does not compile is dropped (neither a violation nor a generator bug)
    pub ctl_from: Option<usize>,
}

pub struct Batch {
    pub dir: PathBuf,
    pub pkg: String,
    pub nbins: usize,
    /// bin -> cases
    pub bins: Vec<Vec<usize>>,
    /// (bin, first line, last line) per case idx
    pub lines: BTreeMap<usize, (usize, usize, usize)>,
    /// absolute first line of the reference side per case idx
    pub ref_lines: BTreeMap<usize, usize>,
    pub ctl_lines: BTreeMap<usize, usize>,
    pub features: Vec<String>,
}

pub struct BuildOutcome {
    /// case idx -> compiler messages
    pub failed_cases: BTreeMap<usize, Vec<String>>,
    /// case idx -> compiler messages located in the reference side (generator bug)
    pub failed_ref: BTreeMap<usize, Vec<String>>,
    /// case idx -> compiler messages located in the control side
    pub failed_ctl: BTreeMap<usize, Vec<String>>,
    /// errors that could not be attributed to a case
    pub other_errors: Vec<String>,
    pub ok: bool,
}

pub struct BatchSpec<'a> {
    pub pkg: &'a str,
    pub header: &'a str,
    pub cases: &'a [CaseSrc],
    /// text of `fn main` given the table lines of the cases in this bin
    pub main: &'a dyn Fn(&[&CaseSrc]) -> String,
    pub nbins: usize,
    pub jvrt_features: &'a [&'a str],
    pub extra_deps: &'a str,
    pub skip: &'a BTreeSet<usize>,
}

pub fn write_batch(spec: &BatchSpec) -> Batch {
    let dir = verif_root().join("work").join(spec.pkg);
    let _ = fs::remove_dir_all(&dir);
    fs::create_dir_all(dir.join("src/bin")).unwrap();
    let feats = if spec.jvrt_features.is_empty() {
        String::new()
    } else {
        format!(", features = [{}]", spec.jvrt_features.iter().map(|f| format!("\"{}\"", f)).collect::<Vec<_>>().join(", "))
    };
    let cargo = format!(
        "[package]\nname = \"{pkg}\"\nversion = \"0.1.0\"\nedition = \"2021\"\n\n[workspace]\n\n[dependencies]\njoin = {{ path = \"{repo}/join\" }}\njvrt = {{ path = \"{root}/crates/jvrt\"{feats} }}\n{futures_dep}tokio = {{ version = \"1\", features = [\"rt\", \"macros\", \"sync\", \"time\"] }}\n{extra}\n[profile.dev]\ndebug = 0\nopt-level = 0\nincremental = false\n\n[profile.dev.package.\"*\"]\nopt-level = 1\n",
        pkg = spec.pkg,
        repo = repo(),
        root = verif_root().display(),
        feats = feats,
        futures_dep = if spec.extra_deps.contains("#nofutures") { "" } else { "futures = \"0.3\"\n" },
        extra = spec.extra_deps,
    );
    fs::write(dir.join("Cargo.toml"), cargo).unwrap();
    // lockfile: the repository's own, so the proc-macro is built with its pinned dependencies;
    // cargo adds the harness-only crates from the offline cache
    let lock_src = verif_root().join("templates/gen.lock");
    if lock_src.exists() {
        fs::copy(&lock_src, dir.join("Cargo.lock")).unwrap();
    } else {
        fs::copy(Path::new(&repo()).join("Cargo.lock"), dir.join("Cargo.lock")).unwrap();
    }
    fs::create_dir_all(dir.join(".cargo")).unwrap();
    fs::write(dir.join(".cargo/config.toml"), "[net]\noffline = true\n").unwrap();

    let live: Vec<&CaseSrc> = spec.cases.iter().filter(|c| !spec.skip.contains(&c.idx)).collect();
    let nbins = spec.nbins.min(live.len()).max(1);
    let mut bins: Vec<Vec<usize>> = vec![Vec::new(); nbins];
    let mut lines = BTreeMap::new();
    let mut ref_lines = BTreeMap::new();
    let mut ctl_lines = BTreeMap::new();
    for b in 0..nbins {
        let mine: Vec<&CaseSrc> = live.iter().enumerate().filter(|(i, _)| i % nbins == b).map(|(_, c)| *c).collect();
        let mut src = String::from(spec.header);
        let mut line = src.matches('\n').count() + 1;
        for c in &mine {
            let nl = c.code.matches('\n').count();
            lines.insert(c.idx, (b, line, line + nl));
            if let Some(r) = c.ref_from {
                ref_lines.insert(c.idx, line + r);
            }
            if let Some(r) = c.ctl_from {
                ctl_lines.insert(c.idx, line + r);
            }
            src.push_str(&c.code);
            if !c.code.ends_with('\n') {
                src.push('\n');
            }
            line = src.matches('\n').count() + 1;
            bins[b].push(c.idx);
        }
        src.push_str(&(spec.main)(&mine));
        fs::write(dir.join(format!("src/bin/{}_b{:02}.rs", spec.pkg, b)), src).unwrap();
    }
    Batch { dir, pkg: spec.pkg.to_string(), nbins, bins, lines, ref_lines, ctl_lines, features: vec![] }
}

impl Batch {
    pub fn build(&self) -> BuildOutcome {
        let out = Command::new("cargo")
            .args(["build", "--offline", "--message-format=json", "--bins", "--keep-going"])
            .current_dir(&self.dir)
            .env("CARGO_TARGET_DIR", gen_target_dir())
            .env("CARGO_NET_OFFLINE", "true")
            .env("RUSTFLAGS", "-Awarnings")
            .stderr(Stdio::piped())
            .stdout(Stdio::piped())
            .output()
            .expect("cargo build");
        let mut failed_cases: BTreeMap<usize, Vec<String>> = BTreeMap::new();
        let mut failed_ref: BTreeMap<usize, Vec<String>> = BTreeMap::new();
        let mut failed_ctl: BTreeMap<usize, Vec<String>> = BTreeMap::new();
        let mut other = Vec::new();
        let stdout = String::from_utf8_lossy(&out.stdout);
        for l in stdout.lines() {
            let Ok(v) = serde_json::from_str::<Value>(l) else { continue };
            if v["reason"] != "compiler-message" {
                continue;
            }
            let m = &v["message"];
            if m["level"] != "error" {
                continue;
            }
            let text = m["message"].as_str().unwrap_or("").to_string();
            if text.starts_with("aborting due to") || text.starts_with("could not compile") {
                continue;
            }
            let mut attributed = false;
            let target_is_ours = v["target"]["src_path"].as_str().map(|p| p.starts_with(self.dir.to_str().unwrap())).unwrap_or(false);
            if let Some(spans) = m["spans"].as_array() {
                for sp in spans {
                    let file = sp["file_name"].as_str().unwrap_or("");
                    let ln = sp["line_start"].as_u64().unwrap_or(0) as usize;
                    if let Some(bn) = file.strip_prefix(&format!("src/bin/{}_b", self.pkg)).and_then(|s| s.strip_suffix(".rs")).and_then(|s| s.parse::<usize>().ok()) {
                        for (idx, (b, lo, hi)) in &self.lines {
                            if *b == bn && ln >= *lo && ln <= *hi {
                                if self.ref_lines.get(idx).map(|r| ln >= *r).unwrap_or(false) {
                                    failed_ref.entry(*idx).or_default().push(format!("{} (line {})", text, ln - lo + 1));
                                } else if self.ctl_lines.get(idx).map(|r| ln >= *r).unwrap_or(false) {
                                    failed_ctl.entry(*idx).or_default().push(format!("{} (line {})", text, ln - lo + 1));
                                } else {
                                    failed_cases.entry(*idx).or_default().push(format!("{} (line {})", text, ln - lo + 1));
                                }
                                attributed = true;
                            }
                        }
                    }
                }
            }
            if !attributed {
                other.push(format!("{}{}", if target_is_ours { "" } else { "[dependency] " }, m["rendered"].as_str().unwrap_or(&text)));
            }
        }
        let ok = out.status.success();
        if !ok && failed_cases.is_empty() && other.is_empty() {
            other.push(String::from_utf8_lossy(&out.stderr).chars().rev().take(3000).collect::<String>().chars().rev().collect());
        }
        // a case whose reference side does not compile is a generator bug, whatever its macro side does
        for k in failed_ref.keys() {
            failed_cases.remove(k);
            failed_ctl.remove(k);
        }
        // a control that does not compile: the case says nothing about this property
        for k in failed_ctl.keys() {
            failed_cases.remove(k);
        }
        BuildOutcome { failed_cases, failed_ref, failed_ctl, other_errors: other, ok }
    }

    pub fn bin_path(&self, b: usize) -> PathBuf {
        gen_target_dir().join("debug").join(format!("{}_b{:02}", self.pkg, b))
    }

    /// Runs every binary (in parallel), returns parsed JSON lines per binary plus infra notes.
    pub fn run(&self, env: &[(String, String)], timeout_s: u64) -> (Vec<Value>, Vec<String>) {
        // The shared target dir is reused by the next batch: run from private hard links. All links
        // are made before any child is spawned (a copy racing with fork/exec gives ETXTBSY).
        let mut privates = Vec::new();
        for b in 0..self.nbins {
            let path = self.bin_path(b);
            let private = self.dir.join(format!("b{:02}.bin", b));
            let _ = fs::remove_file(&private);
            if fs::hard_link(&path, &private).is_err() {
                let _ = fs::copy(&path, &private);
            }
            privates.push(private);
        }
        let mut handles = Vec::new();
        for private in privates {
            let env: Vec<(String, String)> = env.to_vec();
            handles.push(std::thread::spawn(move || run_one(&private, &env, timeout_s)));
        }
        let mut vals = Vec::new();
        let mut infra = Vec::new();
        for (b, h) in handles.into_iter().enumerate() {
            match h.join().unwrap() {
                Ok((lines, stderr_tail, status)) => {
                    for l in lines {
                        match serde_json::from_str::<Value>(&l) {
                            Ok(v) => vals.push(v),
                            Err(_) => infra.push(format!("bin {}: unparsable output line: {}", b, l.chars().take(200).collect::<String>())),
                        }
                    }
                    if status != 0 {
                        infra.push(format!("bin {} exited with {}: {}", b, status, stderr_tail));
                    }
                }
                Err(e) => infra.push(format!("bin {}: {}", b, e)),
            }
        }
        (vals, infra)
    }
}

pub fn run_one(path: &Path, env: &[(String, String)], timeout_s: u64) -> Result<(Vec<String>, String, i32), String> {
    use std::io::Read;
    let mut cmd = Command::new(path);
    for (k, v) in env {
        cmd.env(k, v);
    }
    let mut child = cmd.stdout(Stdio::piped()).stderr(Stdio::piped()).spawn().map_err(|e| format!("spawn {}: {}", path.display(), e))?;
    let mut so = child.stdout.take().unwrap();
    let mut se = child.stderr.take().unwrap();
    let t1 = std::thread::spawn(move || {
        let mut s = String::new();
        let _ = so.read_to_string(&mut s);
        s
    });
    let t2 = std::thread::spawn(move || {
        let mut s = String::new();
        let _ = se.read_to_string(&mut s);
        s
    });
    let start = std::time::Instant::now();
    let status = loop {
        match child.try_wait() {
            Ok(Some(st)) => break st.code().unwrap_or(-1),
            Ok(None) => {
                if start.elapsed().as_secs() > timeout_s {
                    let _ = child.kill();
                    let _ = child.wait();
                    let out = t1.join().unwrap_or_default();
                    let lines: Vec<String> = out.lines().map(|s| s.to_string()).collect();
                    return Ok((lines, format!("TIMEOUT after {} s", timeout_s), -9));
                }
                std::thread::sleep(std::time::Duration::from_millis(5));
            }
            Err(e) => return Err(format!("wait: {}", e)),
        }
    };
    let out = t1.join().unwrap_or_default();
    let err = t2.join().unwrap_or_default();
    let tail: String = err.chars().rev().take(1500).collect::<String>().chars().rev().collect();
    Ok((out.lines().map(|s| s.to_string()).collect(), tail, status))
}


pub struct BatchResult {
    pub reports: Vec<Value>,
    pub compile_fail: BTreeMap<usize, Vec<String>>,
    pub ref_fail: BTreeMap<usize, Vec<String>>,
    pub ctl_fail: BTreeMap<usize, Vec<String>>,
    pub infra: Vec<String>,
}

/// Generic flow: write, build (dropping cases that do not compile and rebuilding), run.
pub fn build_and_run_src(
    pkg: &str,
    header: &str,
    cases: &[CaseSrc],
    main: &dyn Fn(&[&CaseSrc]) -> String,
    env: &[(String, String)],
    features: &[&str],
    extra_deps: &str,
    timeout_s: u64,
    nbins: usize,
) -> BatchResult {
    // two runs that use the same generated package (the same check started twice at the same time) would
    // overwrite each other's sources and binaries: the second one waits here until the first is through
    let _ = fs::create_dir_all(verif_root().join("work"));
    let lock = fs::OpenOptions::new().create(true).write(true).truncate(false).open(verif_root().join("work").join(format!("{}.lock", pkg))).ok();
    if let Some(l) = &lock {
        let _ = l.lock();
    }
    let mut skip: BTreeSet<usize> = BTreeSet::new();
    let mut compile_fail: BTreeMap<usize, Vec<String>> = BTreeMap::new();
    let mut ref_fail: BTreeMap<usize, Vec<String>> = BTreeMap::new();
    let mut ctl_fail: BTreeMap<usize, Vec<String>> = BTreeMap::new();
    let mut infra = Vec::new();
    for _round in 0..5 {
        let spec = BatchSpec { pkg, header, cases, main, nbins, jvrt_features: features, extra_deps, skip: &skip };
        let b = write_batch(&spec);
        let bo = b.build();
        if !bo.failed_cases.is_empty() || !bo.failed_ref.is_empty() || !bo.failed_ctl.is_empty() {
            for (k, v) in bo.failed_cases {
                skip.insert(k);
                compile_fail.insert(k, v);
            }
            for (k, v) in bo.failed_ref {
                skip.insert(k);
                ref_fail.insert(k, v);
            }
            for (k, v) in bo.failed_ctl {
                skip.insert(k);
                ctl_fail.insert(k, v);
            }
            if skip.len() >= cases.len() {
                break;
            }
            continue; // rebuild without the failing cases so the search continues
        }
        if !bo.ok {
            infra.push(format!("build failed without attributable case: {}", bo.other_errors.join(" | ").chars().take(2000).collect::<String>()));
            return BatchResult { reports: vec![], compile_fail, ref_fail, ctl_fail, infra };
        }
        let (reports, inf) = b.run(env, timeout_s);
        infra.extend(inf);
        let _ = std::fs::remove_dir_all(&b.dir);
        return BatchResult { reports, compile_fail, ref_fail, ctl_fail, infra };
    }
    BatchResult { reports: vec![], compile_fail, ref_fail, ctl_fail, infra }
}
