//! Generator of grid programs (DESIGN §4.2). All randomness comes from the `TestRng`
//! proptest hands to `prop_perturb`, so a run is a pure function of the seed.

use jvrt::prog::*;
use proptest::prelude::*;
use proptest::test_runner::TestRng;

#[derive(Clone, Debug)]
pub struct GenCfg {
    pub macros: Vec<&'static str>,
    pub allow_opt: bool,
    pub n: (usize, usize),
    pub depth: (usize, usize),
    /// number of actions per cell (min, max); a deferred cell always has at least one
    pub cell: (usize, usize),
    pub wrappers: f64,
    pub max_wrap_depth: usize,
    pub caps: f64,
    pub names: f64,
    pub snaps: f64,
    pub handler: f64,
    pub handler_block: f64,
    pub inline_forms: f64,
    /// force a fixed depth profile (C04 exhaustive part)
    pub profile: Option<Vec<usize>>,
    /// probability that all branches get the same depth
    pub equal_depths: f64,
    /// probability of an op that can turn a failing value into a good one again
    pub recover: f64,
}

impl GenCfg {
    pub fn base(macros: Vec<&'static str>) -> GenCfg {
        GenCfg {
            macros,
            allow_opt: true,
            n: (1, 5),
            depth: (1, 4),
            cell: (0, 3),
            wrappers: 0.15,
            max_wrap_depth: 2,
            caps: 0.15,
            names: 0.3,
            snaps: 0.5,
            handler: 0.3,
            handler_block: 0.3,
            inline_forms: 0.25,
            profile: None,
            equal_depths: 0.2,
            recover: 1.0,
        }
    }
}

pub struct G<'a> {
    pub rng: &'a mut TestRng,
    pub cfg: &'a GenCfg,
    next_id: u32,
    flavor: Flavor,
    kind: MacroKind,
    in_wrapper: usize,
    /// the wrapper being generated is the first action of a step >= 1 of a try-async macro and
    /// sits on the error side: its body must not start with a member access (known finding D4)
    pub excluded_d4: u64,
    /// inside the body of a `|> >>>` that starts a step >= 1 of a try-async macro: `<|` would
    /// leave the (re-wrapped) error type unconstrained (known finding D4)
    no_or: usize,
}

fn range(rng: &mut TestRng, lo: usize, hi: usize) -> usize {
    if hi <= lo {
        lo
    } else {
        rng.random_range(lo..=hi)
    }
}

impl<'a> G<'a> {
    fn id(&mut self) -> u32 {
        self.next_id += 1;
        self.next_id
    }
    fn chance(&mut self, p: f64) -> bool {
        p > 0.0 && self.rng.random_bool(p.min(1.0))
    }
    fn pick<T: Copy>(&mut self, v: &[T]) -> T {
        v[self.rng.random_range(0..v.len())]
    }

    fn form(&mut self, op: Op, asy: bool) -> u8 {
        let inline_ok = match op {
            Op::Or | Op::Dot | Op::TokDot | Op::Look | Op::Check => false,
            Op::Then => !asy,
            _ => true,
        };
        if inline_ok && self.chance(self.cfg.inline_forms) {
            1 + self.rng.random_range(0..2u8)
        } else {
            0
        }
    }

    fn cap(&mut self, op: Op, step: usize, names: &[usize]) -> Option<Cap> {
        if op.is_dot() || !self.chance(self.cfg.caps) {
            return None;
        }
        let id = self.id();
        let mut snaps = Vec::new();
        if step >= 1 && !names.is_empty() && self.chance(self.cfg.snaps) {
            let k = range(self.rng, 1, names.len().min(3));
            for _ in 0..k {
                let b = self.pick(names);
                if !snaps.contains(&b) {
                    snaps.push(b);
                }
            }
        }
        Some(Cap { id, snaps })
    }

    fn plain(&mut self, op: Op, asy: bool, step: usize, names: &[usize]) -> Act {
        let cap = self.cap(op, step, names);
        let id = self.id();
        let mut form = self.form(op, asy);
        // Soundness rule (DESIGN 7.3): a hoisted capture used inside a (non-move) wrapper closure
        // must not be `Copy`, or the closure borrows it and the branch is not 'static under the
        // task-spawning macros (and not accepted by the harness' own `-> ft(ID)` callback, which
        // boxes the future it is given as 'static). Inline closures capture nothing and are `Copy`.
        if cap.is_some() && self.in_wrapper > 0 && self.kind.is_async {
            form = 0;
        }
        let alt = op.is_dot() && self.chance(0.3);
        Act { op, id, cap, form, wrap: None, closed: true, alt }
    }

    fn tok_acts(&mut self, asy: bool, step: usize, names: &[usize]) -> Vec<Act> {
        let k = range(self.rng, 0, 2);
        (0..k)
            .map(|_| {
                let op = if self.chance(0.5) { Op::TokThen } else { Op::TokDot };
                self.plain(op, asy, step, names)
            })
            .collect()
    }

    /// operators on W available in the given scope
    fn w_ops(&self, asy: bool) -> Vec<Op> {
        if asy {
            vec![Op::Map, Op::AndThen, Op::OrElse, Op::MapErr, Op::Inspect, Op::Then, Op::Dot]
        } else {
            match self.flavor {
                Flavor::Res => vec![Op::Map, Op::AndThen, Op::Or, Op::OrElse, Op::MapErr, Op::Inspect, Op::Then, Op::Dot],
                Flavor::Opt => vec![Op::Map, Op::AndThen, Op::Filter, Op::Or, Op::OrElse, Op::Inspect, Op::Then, Op::Dot],
            }
        }
    }

    fn wrapper_ops(&self, asy: bool) -> Vec<Op> {
        if asy {
            vec![Op::Map, Op::AndThen, Op::OrElse, Op::MapErr, Op::Inspect]
        } else {
            match self.flavor {
                Flavor::Res => vec![Op::Map, Op::AndThen, Op::OrElse, Op::MapErr, Op::Inspect],
                Flavor::Opt => vec![Op::Map, Op::AndThen, Op::Filter, Op::Inspect],
            }
        }
    }

    /// a list of `k` actions over W; the last one may be an implicitly closed wrapper when
    /// `may_leave_open` (it is the last thing in its step)
    fn w_acts(&mut self, k: usize, asy: bool, depth: usize, step: usize, names: &[usize], may_leave_open: bool, in_sync_body_of_async: bool) -> Vec<Act> {
        let mut v = Vec::new();
        for i in 0..k {
            let last = i + 1 == k;
            if depth < self.cfg.max_wrap_depth && self.chance(self.cfg.wrappers) {
                let mut wops = self.wrapper_ops(asy);
                if in_sync_body_of_async {
                    // inside `|> >>>` of an async macro the expansion of `??` is `.inspect(..)`,
                    // which is not the sync helper: keep inspect out of these bodies
                    wops.retain(|o| *o != Op::Inspect);
                }
                let op = self.pick(&wops);
                let d4_pos = depth == 0 && i == 0 && step >= 1 && self.kind.is_try && self.kind.is_async;
                self.in_wrapper += 1;
                if d4_pos && op == Op::Map {
                    self.no_or += 1;
                }
                let mut inner = self.body(op, asy, depth + 1, step, names, in_sync_body_of_async);
                if d4_pos && op == Op::Map {
                    self.no_or -= 1;
                }
                self.in_wrapper -= 1;
                // known finding D4 (excluded by construction, see DESIGN 8): in a try-async macro a
                // step >= 1 that *starts* with `<= >>>` / `!> >>>` whose body starts with a member
                // access does not compile (the error type is not yet inferred)
                if depth == 0 && i == 0 && step >= 1 && self.kind.is_try && self.kind.is_async && matches!(op, Op::OrElse | Op::MapErr) {
                    if inner.first().map(|a| a.op == Op::TokDot).unwrap_or(false) {
                        inner[0].op = Op::TokThen;
                        inner[0].alt = false;
                        self.excluded_d4 += 1;
                    }
                }
                let closed = !(last && may_leave_open && self.chance(0.5));
                v.push(Act { op, id: self.id(), cap: None, form: 0, wrap: Some(inner), closed, alt: false });
            } else {
                let mut ops = self.w_ops(asy);
                if in_sync_body_of_async {
                    ops.retain(|o| *o != Op::Inspect);
                }
                if !self.chance(self.cfg.recover) {
                    ops.retain(|o| !matches!(o, Op::Or | Op::OrElse));
                }
                if self.no_or > 0 && ops.contains(&Op::Or) {
                    ops.retain(|o| *o != Op::Or);
                    self.excluded_d4 += 1;
                }
                let op = self.pick(&ops);
                v.push(self.plain(op, asy, step, names));
            }
        }
        v
    }

    fn body(&mut self, op: Op, asy: bool, depth: usize, step: usize, names: &[usize], in_sync_body_of_async: bool) -> Vec<Act> {
        match op {
            Op::Map if asy => {
                // body sees a plain W: sync operators, Result flavour
                let k = range(self.rng, 0, 2);
                self.w_acts(k, false, depth, step, names, false, true)
            }
            Op::Map | Op::MapErr => self.tok_acts(asy, step, names),
            Op::AndThen | Op::OrElse => {
                let mut v = self.tok_acts(asy, step, names);
                v.push(self.plain(Op::TokConv, asy, step, names));
                let k = range(self.rng, 0, 2);
                let scope = jvrt::model::body_async(op, asy);
                v.extend(self.w_acts(k, scope, depth, step, names, false, in_sync_body_of_async && !scope));
                v
            }
            Op::Inspect => vec![self.plain(Op::Look, asy, step, names)],
            Op::Filter => vec![self.plain(Op::Check, asy, step, names)],
            _ => unreachable!(),
        }
    }
}

pub fn gen_prog(rng: &mut TestRng, cfg: &GenCfg, force_macro: Option<&'static str>) -> Prog {
    let mac = force_macro.unwrap_or_else(|| cfg.macros[rng.random_range(0..cfg.macros.len())]);
    let kind = macro_kind(mac);
    let flavor = if !kind.is_async && cfg.allow_opt && rng.random_bool(0.4) { Flavor::Opt } else { Flavor::Res };
    let mut g = G { rng, cfg, next_id: 0, flavor, kind, in_wrapper: 0, excluded_d4: 0, no_or: 0 };
    let depths: Vec<usize> = match &cfg.profile {
        Some(p) => p.clone(),
        None => {
            let n = range(g.rng, cfg.n.0, cfg.n.1);
            if g.chance(cfg.equal_depths) {
                let d = range(g.rng, cfg.depth.0, cfg.depth.1);
                vec![d; n]
            } else {
                (0..n).map(|_| range(g.rng, cfg.depth.0, cfg.depth.1)).collect()
            }
        }
    };
    let n = depths.len();
    let named: Vec<usize> = (0..n).filter(|_| g.chance(cfg.names)).collect();
    let asy = kind.is_async;
    let mut branches = Vec::new();
    for b in 0..n {
        let init_cap = if g.chance(cfg.caps) { Some(Cap { id: g.id(), snaps: vec![] }) } else { None };
        let init = Act { op: Op::Then, id: g.id(), cap: init_cap, form: 0, wrap: None, closed: true, alt: false };
        let mut steps = Vec::new();
        for s in 0..depths[b] {
            let lo = if s == 0 { cfg.cell.0 } else { cfg.cell.0.max(1) };
            let k = range(g.rng, lo, cfg.cell.1.max(lo));
            steps.push(g.w_acts(k, asy, 0, s, &named, true, false));
        }
        let name = if named.contains(&b) { Some((format!("nb{}", b), g.chance(0.3))) } else { None };
        branches.push(Branch { name, init, steps });
    }
    let handler = if g.chance(cfg.handler) {
        let hk = if kind.is_try {
            if g.chance(0.5) {
                HKind::Map
            } else {
                HKind::AndThen
            }
        } else {
            HKind::Then
        };
        Some(Handler { kind: hk, id: g.id(), pos: range(g.rng, 0, n), block: g.chance(cfg.handler_block) })
    } else {
        None
    };
    let _ = g.kind;
    Prog { mac: mac.to_string(), flavor, branches, handler, opts: Opts::default() }
}

/// Strategy wrapper: the program is produced inside proptest's generator from its own RNG.
pub fn prog_strategy(cfg: GenCfg, force_macro: Option<&'static str>) -> impl Strategy<Value = Prog> {
    Just(()).prop_perturb(move |_, mut rng| gen_prog(&mut rng, &cfg, force_macro))
}

/// All depth profiles with n <= max_n and d <= max_d.
pub fn all_profiles(max_n: usize, max_d: usize) -> Vec<Vec<usize>> {
    let mut out = Vec::new();
    for n in 1..=max_n {
        let mut cur = vec![1usize; n];
        loop {
            out.push(cur.clone());
            let mut i = 0;
            loop {
                if i == n {
                    break;
                }
                if cur[i] < max_d {
                    cur[i] += 1;
                    break;
                }
                cur[i] = 1;
                i += 1;
            }
            if i == n {
                break;
            }
        }
    }
    out
}

// ------------------------------------------------------------------ known finding D4
//
// In the try-async macros the results of a step are re-wrapped as `Ok(value)` before the next
// step, which leaves the *error type* of the re-wrapped value to be inferred from its later
// uses. A step >= 1 that uses the error value through a member access (inside `<= >>>` /
// `!> >>>`), or replaces the error type (`<|` inside `|> >>>`), before any other action has
// pinned the type, does not compile ("type annotations needed") although the documented
// desugaring does. Recorded as an open finding under C02; every generator excludes the class.

#[derive(PartialEq)]
enum Pin {
    Pinned,
    Open,
    Bad,
}

fn d4_sync_body(acts: &[Act]) -> Pin {
    // body of `|> >>>` in an async macro: plain `Result<Tok, ?E>` methods
    for a in acts {
        match (&a.wrap, a.op) {
            (None, Op::Or) => return Pin::Bad,
            (None, Op::Map) | (None, Op::Dot) => {}
            (None, _) => return Pin::Pinned,
            (Some(inner), Op::OrElse) | (Some(inner), Op::MapErr) => {
                if inner.first().map(|x| x.op == Op::TokDot).unwrap_or(false) {
                    return Pin::Bad;
                }
                if !inner.is_empty() {
                    return Pin::Pinned;
                }
            }
            (Some(_), Op::AndThen) => return Pin::Pinned,
            (Some(_), _) => {}
        }
    }
    Pin::Open
}

pub fn is_d4(p: &Prog) -> bool {
    let k = p.kind();
    if !(k.is_try && k.is_async) {
        return false;
    }
    for b in &p.branches {
        for cell in b.steps.iter().skip(1) {
            for a in cell {
                let r = match (&a.wrap, a.op) {
                    (None, _) => Pin::Pinned,
                    (Some(_), Op::Inspect) => Pin::Open,
                    (Some(inner), Op::Map) => d4_sync_body(inner),
                    (Some(inner), Op::OrElse) | (Some(inner), Op::MapErr) => {
                        if inner.first().map(|x| x.op == Op::TokDot).unwrap_or(false) {
                            Pin::Bad
                        } else if inner.is_empty() {
                            Pin::Open
                        } else {
                            Pin::Pinned
                        }
                    }
                    (Some(_), _) => Pin::Pinned,
                };
                match r {
                    Pin::Bad => return true,
                    Pin::Pinned => break,
                    Pin::Open => {}
                }
            }
        }
    }
    false
}
