//! Typed chain generator (DESIGN 4.1): a random walk over a small type universe, each edge
//! one DSL operator with fully typed operands. Every program is rendered twice: through the
//! macro, and as the method chain the README documents (same operand text).

use proptest::prelude::*;
use proptest::test_runner::TestRng;

#[derive(Clone, Debug, PartialEq)]
pub enum Ty {
    I64,
    Usize,
    Bool,
    Unit,
    /// clone- and drop-counting value
    Ck,
    /// neither Send nor Clone
    Ns,
    /// move-only
    Mv,
    /// Send but not Sync
    Sn,
    Opt(Box<Ty>),
    Res(Box<Ty>),
    Vec(Box<Ty>),
    Tup(Box<Ty>, Box<Ty>),
    /// an iterator with this item type (not nameable, never a final type)
    Iter(Box<Ty>),
    /// `&T` inside wrapper bodies
    Ref(Box<Ty>),
    /// a future with this output (not nameable)
    Fut(Box<Ty>),
    /// a stream with this item type (not nameable)
    Stream(Box<Ty>),
}

impl Ty {
    pub fn name(&self) -> String {
        match self {
            Ty::I64 => "i64".into(),
            Ty::Usize => "usize".into(),
            Ty::Bool => "bool".into(),
            Ty::Unit => "()".into(),
            Ty::Ck => "Ck".into(),
            Ty::Ns => "Ns".into(),
            Ty::Mv => "Mv".into(),
            Ty::Sn => "Sn".into(),
            Ty::Opt(t) => format!("Option<{}>", t.name()),
            Ty::Res(t) => format!("Result<{}, i64>", t.name()),
            Ty::Vec(t) => format!("Vec<{}>", t.name()),
            Ty::Tup(a, b) => format!("({}, {})", a.name(), b.name()),
            Ty::Iter(_) => "_".into(),
            Ty::Ref(t) => format!("&{}", t.name()),
            Ty::Fut(_) | Ty::Stream(_) => "_".into(),
        }
    }
    pub fn depth(&self) -> usize {
        match self {
            Ty::Opt(t) | Ty::Res(t) | Ty::Vec(t) | Ty::Iter(t) | Ty::Ref(t) | Ty::Fut(t) | Ty::Stream(t) => 1 + t.depth(),
            Ty::Tup(a, b) => 1 + a.depth().max(b.depth()),
            _ => 0,
        }
    }
    fn b(self) -> Box<Ty> {
        Box::new(self)
    }
}

#[derive(Clone, Copy, Debug, PartialEq, Eq, Hash)]
pub enum Comb {
    Map,
    AndThen,
    Filter,
    Dot,
    Then,
    Or,
    OrElse,
    MapErr,
    Collect,
    Chain,
    FindMap,
    FilterMap,
    Enumerate,
    Partition,
    Flatten,
    Fold,
    TryFold,
    Find,
    Zip,
    Unzip,
    Inspect,
}

/// the 22 operator spellings
pub const SPELLINGS: [(&str, Comb); 22] = [
    ("|>", Comb::Map),
    ("=>", Comb::AndThen),
    ("?>", Comb::Filter),
    ("..", Comb::Dot),
    (">.", Comb::Dot),
    ("->", Comb::Then),
    ("<|", Comb::Or),
    ("<=", Comb::OrElse),
    ("!>", Comb::MapErr),
    ("=>[]", Comb::Collect),
    (">@>", Comb::Chain),
    ("?|>@", Comb::FindMap),
    ("?|>", Comb::FilterMap),
    ("|n>", Comb::Enumerate),
    ("?&!>", Comb::Partition),
    ("^^>", Comb::Flatten),
    ("^@", Comb::Fold),
    ("?^@", Comb::TryFold),
    ("?@", Comb::Find),
    (">^>", Comb::Zip),
    ("<->", Comb::Unzip),
    ("??", Comb::Inspect),
];

pub const WRAPPERS: [Comb; 10] = [Comb::Map, Comb::AndThen, Comb::Filter, Comb::Inspect, Comb::FilterMap, Comb::Find, Comb::FindMap, Comb::Partition, Comb::OrElse, Comb::MapErr];

pub fn token(c: Comb, alt: bool) -> &'static str {
    match c {
        Comb::Dot => {
            if alt {
                ">."
            } else {
                ".."
            }
        }
        _ => SPELLINGS.iter().find(|s| s.1 == c).unwrap().0,
    }
}

#[derive(Clone, Debug)]
pub struct COp {
    pub comb: Comb,
    pub alt: bool,
    pub deferred: bool,
    /// operand texts as written after the operator (exprs, or types for `=>[]` / `<->`)
    pub operands: Vec<String>,
    /// wrapper form: inner chain, explicit close
    pub inner: Option<Vec<COp>>,
    pub closed: bool,
    /// the type after this operator
    pub out: Ty,
}

#[derive(Clone, Copy, Debug, PartialEq, Eq)]
pub enum Family {
    /// join / try_join and the thread-spawning macros
    Sync,
    /// async macros with a sync chain closed by `-> ready` / `-> ok`
    AsyncClosed,
    /// async macros over real futures and streams (FutureExt / TryFutureExt / StreamExt /
    /// TryStreamExt methods); plain values inside wrapper bodies behave as in AsyncClosed
    AsyncReal,
}

#[derive(Clone, Debug)]
pub struct ChainBranch {
    /// statements defining caller-side locals the branch borrows from (emitted on both sides)
    pub locals: Vec<String>,
    /// `let [mut] name =` written in front of the branch on the macro side only
    pub let_name: Option<(String, bool)>,
    pub init_ty: Ty,
    pub init_text: String,
    pub ops: Vec<COp>,
    pub fin: Ty,
}

#[derive(Clone, Debug)]
pub struct ChainProg {
    pub fam: Family,
    pub mac: String,
    pub branches: Vec<ChainBranch>,
    /// (place, inner macro, depth) of every nested invocation (C17)
    pub nestings: Vec<(String, String, usize)>,
    /// (kind, closure text) of a handler whose body is a nested macro invocation (C17)
    pub handler: Option<(String, String)>,
    /// option prefix written in front of the branches (macro side only)
    pub options: String,
    /// (nested invocation text, plain-Rust text) pairs, outermost last
    pub nest_pairs: Vec<(String, String)>,
    /// the invocation is produced by a `macro_rules!` wrapper that receives the `let` names as
    /// `ident` metavariables (macro side only)
    pub mr_wrap: bool,
    /// C14: 1 = every initial value and expression operand reaches the macro as an `expr` fragment of a
    /// `macro_rules!` wrapper (one token tree, whatever is inside); 2 = the same texts parenthesised in
    /// a direct invocation (the control); 0 = as written
    pub frag: u8,
}

pub struct CG<'a> {
    pub rng: &'a mut TestRng,
    pub fam: Family,
    pub next: u32,
    pub base: u32,
    pub caps: f64,
    pub wrappers: f64,
    pub shapes: bool,
    /// C02: one callback inside a wrapper body counts its calls in a (Copy) local of the calling
    /// function, `__cnt`, which becomes part of the compared result: wrapper closures must capture
    /// the caller's variables the way the hand-written closure does
    /// C14: closures whose body has an operator look-alike at its top level (`a <= b`) - legal only
    /// where the operand reaches the macro as one token tree
    pub lookalikes: bool,
    pub count_local: bool,
    pub count_used: bool,
    /// inside a wrapper whose closure must be `Fn` (sync `??`)
    pub no_count: bool,
    pub allow_deferred: bool,
    pub spawn_async: bool,
    pub depth: usize,
    /// force this combinator to appear at the first opportunity
    pub force: Option<(Comb, bool, bool)>,
    pub forced_done: bool,
    /// probability of the counting type `Ck` where a scalar is drawn
    pub ck: f64,
    /// probability of the !Send / move-only types `Ns` / `Mv` where a scalar is drawn
    pub ns: f64,
    /// probability of the Send-but-not-Sync type `Sn` where a scalar is drawn
    pub sn: f64,
    /// probability that a callback operand is written as a closure around a nested macro invocation (C17)
    pub nest: f64,
    pub nest_depth: usize,
    /// nestings generated so far: (outer position, inner macro, depth)
    pub nest_log: Vec<(String, String, usize)>,
    /// (text of a nested invocation, the same chain written as plain Rust) - for control programs
    pub nest_pairs: Vec<(String, String)>,
}

fn rb(rng: &mut TestRng, p: f64) -> bool {
    p > 0.0 && rng.random_bool(p.min(1.0))
}

impl<'a> CG<'a> {
    fn id(&mut self) -> u32 {
        self.next += 1;
        self.base + self.next
    }
    fn pick<T: Clone>(&mut self, v: &[T]) -> T {
        v[self.rng.random_range(0..v.len())].clone()
    }

    /// a random nameable type of bounded depth
    pub fn any_ty(&mut self, max_depth: usize) -> Ty {
        let k = if max_depth == 0 { self.rng.random_range(0..4) } else { self.rng.random_range(0..9) };
        if k < 4 && rb(self.rng, self.ck) {
            return Ty::Ck;
        }
        if k < 4 && rb(self.rng, self.sn) {
            return Ty::Sn;
        }
        if k < 4 && rb(self.rng, self.ns) {
            return if rb(self.rng, 0.6) { Ty::Ns } else { Ty::Mv };
        }
        match k {
            0 => Ty::I64,
            1 => Ty::Usize,
            2 => Ty::Bool,
            3 => Ty::I64,
            4 => Ty::Opt(self.any_ty(max_depth - 1).b()),
            5 => Ty::Res(self.any_ty(max_depth - 1).b()),
            6 => Ty::Vec(self.any_ty(max_depth - 1).b()),
            7 => Ty::Tup(self.any_ty(max_depth - 1).b(), self.any_ty(max_depth - 1).b()),
            _ => Ty::Unit,
        }
    }

    /// operand for a callback `A -> B` in one of several shapes
    /// `::join::MAC! { from_text <generated chain from `from` to `goal`> }` for a random macro name
    pub fn nested_invocation(&mut self, from: &Ty, from_text: &str, goal: &Ty, place: &str) -> String {
        let tryable = matches!(goal, Ty::Opt(_) | Ty::Res(_));
        let res_goal = matches!(goal, Ty::Res(_));
        let mut names: Vec<&'static str> = vec!["join", "join_spawn", "spawn", "join_async", "join_async_spawn", "async_spawn"];
        if tryable {
            names.extend(["try_join", "try_join_spawn", "try_spawn"]);
        }
        if res_goal {
            names.extend(["try_join_async", "try_join_async_spawn", "try_async_spawn"]);
        }
        let mac = self.pick(&names);
        let is_async = mac.contains("async");
        let saved = (self.fam, self.force, self.forced_done, self.depth, self.spawn_async);
        self.fam = if is_async { Family::AsyncClosed } else { Family::Sync };
        self.force = None;
        self.depth = 0;
        self.spawn_async = true;
        self.nest_depth += 1;
        let len = self.rng.random_range(0..4usize);
        let (ops, _fin) = self.walk(from, len, Some(goal), false);
        self.nest_log.push((place.to_string(), mac.to_string(), self.nest_depth));
        self.nest_depth -= 1;
        self.fam = saved.0;
        self.force = saved.1;
        self.forced_done = saved.2;
        self.depth = saved.3;
        self.spawn_async = saved.4;
        let mut body = from_text.to_string();
        render_ops(&ops, &mut body);
        // the same chain as plain Rust (the documented method chain), for the control program
        let inner_fam = if is_async { Family::AsyncClosed } else { Family::Sync };
        let mut plain = format!("({})", from_text);
        for op in &ops {
            plain = ref_apply(plain, op, inner_fam);
        }
        let (text, plain_text) = if is_async {
            (format!("drive(::join::{}! {{ {} -> ready }})", mac, body), format!("drive((ready)({}))", plain))
        } else {
            (format!("::join::{}! {{ {} }}", mac, body), plain)
        };
        self.nest_pairs.push((text.clone(), plain_text));
        text
    }

    fn cb(&mut self, a: &Ty, b: &Ty, allow_cap: bool) -> String {
        if self.nest_depth < 2 && !matches!(a, Ty::Iter(_) | Ty::Ref(_)) && rb(self.rng, self.nest) {
            // the operand is a closure around a nested macro invocation, or a block capture that
            // evaluates one
            if allow_cap && rb(self.rng, 0.4) {
                let cid = self.id();
                let kid = self.id();
                let inner = self.nested_invocation(&Ty::I64, &format!("altv::<i64>({})", kid), &Ty::I64, "capture");
                let id = self.id();
                return format!("{{ cap({}); let __k = {}; move |v: {}| -> {} {{ xcbf::<({}, i64), {}>({}, (v, __k)) }} }}", cid, inner, a.name(), b.name(), a.name(), b.name(), id);
            }
            let inner = self.nested_invocation(a, "v", b, "operand");
            return format!("|v: {}| -> {} {{ {} }}", a.name(), b.name(), inner);
        }
        if self.count_local && !self.count_used && !self.no_count && self.depth >= 1 && !matches!(a, Ty::Iter(_) | Ty::Ref(_)) && rb(self.rng, if self.depth >= 2 { 0.7 } else { 0.2 }) {
            self.count_used = true;
            let id = self.id();
            return format!("|v: {}| -> {} {{ __cnt += 1; xcbf::<{}, {}>({}, v) }}", a.name(), b.name(), a.name(), b.name(), id);
        }
        if self.lookalikes && matches!(b, Ty::Bool) && !matches!(a, Ty::Iter(_) | Ty::Ref(_)) && rb(self.rng, 0.6) {
            let id = self.id();
            return format!("|v: {}| inp::<i64>(7) <= xcbf::<{}, i64>({}, v)", a.name(), a.name(), id);
        }
        let id = self.id();
        let core = if self.shapes {
            match self.rng.random_range(0..7) {
                6 => format!("lcbf::<{}, {}>({})", a.name(), b.name(), id),
                0 => format!("|v: {}| xcbf::<{}, {}>({}, v)", a.name(), a.name(), b.name(), id),
                1 => format!("|v: {}| -> {} {{ xcbf::<{}, {}>({}, v) }}", a.name(), b.name(), a.name(), b.name(), id),
                2 => format!("(cbf::<{}, {}>({}))", a.name(), b.name(), id),
                3 => format!("jvrt::mk!({}, {} => {})", id, a.name(), b.name()),
                _ => format!("cbf::<{}, {}>({})", a.name(), b.name(), id),
            }
        } else {
            format!("cbf::<{}, {}>({})", a.name(), b.name(), id)
        };
        self.maybe_cap(core, allow_cap)
    }
    fn maybe_cap(&mut self, core: String, allow_cap: bool) -> String {
        // a parenthesised block is an ordinary expression, not a block operand: it is evaluated in
        // place (inside a wrapper: whenever the wrapper's closure runs), like in the documented chain
        if rb(self.rng, self.caps * 0.25) {
            let cid = self.id();
            return format!("({{ cap({}); {} }})", cid, core);
        }
        if allow_cap && rb(self.rng, self.caps) {
            let cid = self.id();
            format!("{{ cap({}); {} }}", cid, core)
        } else {
            core
        }
    }
    fn pred(&mut self, a: &Ty, allow_cap: bool) -> String {
        let id = self.id();
        let core = if self.shapes && rb(self.rng, 0.3) { format!("|v: &{}| xpred::<{}>({}, v)", a.name(), a.name(), id) } else { format!("pred::<{}>({})", a.name(), id) };
        self.maybe_cap(core, allow_cap)
    }
    fn altv(&mut self, t: &Ty, allow_cap: bool) -> String {
        let id = self.id();
        let core = format!("altv::<{}>({})", t.name(), id);
        self.maybe_cap(core, allow_cap)
    }

    fn plain(&mut self, comb: Comb, operands: Vec<String>, out: Ty) -> COp {
        let alt = comb == Comb::Dot && rb(self.rng, 0.35);
        COp { comb, alt, deferred: false, operands, inner: None, closed: true, out }
    }

    /// candidate edges from `cur`; `in_wrapper` = inside a wrapper body (closures may be called
    /// repeatedly and, in task-spawning macros, must not borrow hoisted values)
    fn step(&mut self, cur: &Ty, in_wrapper: bool) -> COp {
        let allow_cap = !(in_wrapper && self.spawn_async);
        let md = 2usize;
        // forced combinator first, if it applies here
        if let Some((fc, falt, fwrap)) = self.force {
            if !self.forced_done {
                if let Some(op) = self.try_comb(fc, cur, allow_cap, fwrap, in_wrapper) {
                    self.forced_done = true;
                    let mut op = op;
                    if fc == Comb::Dot {
                        op.alt = falt;
                    }
                    return op;
                }
            }
        }
        // nested future / stream: flatten first
        if let Ty::Fut(t) | Ty::Stream(t) = cur {
            if matches!(**t, Ty::Fut(_) | Ty::Stream(_)) {
                return self.try_comb(Comb::Flatten, cur, false, false, in_wrapper).expect("flatten applies");
            }
        }
        // otherwise a random applicable combinator (retry a few times)
        for _ in 0..40 {
            let (_, c) = SPELLINGS[self.rng.random_range(0..22)];
            let wrap = WRAPPERS.contains(&c) && self.depth < 3 && rb(self.rng, self.wrappers);
            if let Some(op) = self.try_comb(c, cur, allow_cap, wrap, in_wrapper) {
                return op;
            }
        }
        // `->` applies to every type
        let _ = md;
        if let Some(op) = self.try_comb(Comb::Then, cur, allow_cap, false, in_wrapper) {
            return op;
        }
        if let Some(op) = self.try_comb(Comb::Map, cur, allow_cap, false, in_wrapper) {
            return op;
        }
        let t = self.any_ty(1);
        let o = self.cb(cur, &t, allow_cap);
        self.plain(Comb::Then, vec![o], t)
    }

    /// the edge for combinator `c` on `cur`, if there is one
    fn try_comb(&mut self, c: Comb, cur: &Ty, allow_cap: bool, wrap: bool, in_wrapper: bool) -> Option<COp> {
        if wrap {
            return self.try_wrapper(c, cur, in_wrapper);
        }
        let sync = self.fam == Family::Sync;
        if matches!(cur, Ty::Fut(_) | Ty::Stream(_)) {
            return self.try_future_comb(c, cur, allow_cap, in_wrapper);
        }
        // a hoisted *value* (not a Copy callback) cannot be moved out of a wrapper closure that may
        // be called repeatedly
        let allow_cap_val = allow_cap && !in_wrapper;
        match (c, cur) {
            // ------------------------------------------------ Option
            (Comb::Map, Ty::Opt(t)) | (Comb::Map, Ty::Res(t)) | (Comb::Map, Ty::Iter(t)) => {
                let u = self.any_ty(1);
                let o = self.cb(t, &u, allow_cap);
                let out = match cur {
                    Ty::Opt(_) => Ty::Opt(u.b()),
                    Ty::Res(_) => Ty::Res(u.b()),
                    _ => Ty::Iter(u.b()),
                };
                Some(self.plain(c, vec![o], out))
            }
            (Comb::AndThen, Ty::Opt(t)) => {
                let u = Ty::Opt(self.any_ty(1).b());
                let o = self.cb(t, &u, allow_cap);
                Some(self.plain(c, vec![o], u))
            }
            (Comb::AndThen, Ty::Res(t)) => {
                let u = Ty::Res(self.any_ty(1).b());
                let o = self.cb(t, &u, allow_cap);
                Some(self.plain(c, vec![o], u))
            }
            (Comb::Filter, Ty::Opt(t)) | (Comb::Filter, Ty::Iter(t)) => {
                let o = self.pred(t, allow_cap);
                Some(self.plain(c, vec![o], cur.clone()))
            }
            (Comb::Or, Ty::Opt(_)) | (Comb::Or, Ty::Res(_)) => {
                let o = self.altv(cur, allow_cap_val);
                Some(self.plain(c, vec![o], cur.clone()))
            }
            (Comb::OrElse, Ty::Opt(_)) => {
                let id = self.id();
                let o = self.maybe_cap(format!("lazy::<{}>({})", cur.name(), id), allow_cap);
                Some(self.plain(c, vec![o], cur.clone()))
            }
            (Comb::OrElse, Ty::Res(_)) => {
                let o = self.cb(&Ty::I64, cur, allow_cap);
                Some(self.plain(c, vec![o], cur.clone()))
            }
            (Comb::MapErr, Ty::Res(_)) => {
                let o = self.cb(&Ty::I64, &Ty::I64, allow_cap);
                Some(self.plain(c, vec![o], cur.clone()))
            }
            (Comb::Zip, Ty::Opt(t)) => {
                let u = self.any_ty(0);
                let o = self.altv(&Ty::Opt(u.clone().b()), allow_cap_val);
                Some(self.plain(c, vec![o], Ty::Opt(Ty::Tup(t.clone(), u.b()).b())))
            }
            (Comb::Flatten, Ty::Opt(t)) => match &**t {
                Ty::Opt(_) => Some(self.plain(c, vec![], (**t).clone())),
                _ => None,
            },
            (Comb::Flatten, Ty::Res(t)) => match &**t {
                Ty::Res(_) => Some(self.plain(c, vec![], (**t).clone())),
                _ => None,
            },
            (Comb::Unzip, Ty::Opt(t)) => match &**t {
                Ty::Tup(a, b) => Some(self.plain(c, vec![], Ty::Tup(Ty::Opt(a.clone()).b(), Ty::Opt(b.clone()).b()))),
                _ => None,
            },
            // ------------------------------------------------ iterators
            (Comb::FilterMap, Ty::Iter(t)) => {
                let u = self.any_ty(1);
                let o = self.cb(t, &Ty::Opt(u.clone().b()), allow_cap);
                Some(self.plain(c, vec![o], Ty::Iter(u.b())))
            }
            (Comb::FindMap, Ty::Iter(t)) => {
                let u = self.any_ty(1);
                let o = self.cb(t, &Ty::Opt(u.clone().b()), allow_cap);
                Some(self.plain(c, vec![o], Ty::Opt(u.b())))
            }
            (Comb::Find, Ty::Iter(t)) => {
                let o = self.pred(t, allow_cap);
                Some(self.plain(c, vec![o], Ty::Opt(t.clone())))
            }
            (Comb::Enumerate, Ty::Iter(t)) => Some(self.plain(c, vec![], Ty::Iter(Ty::Tup(Ty::Usize.b(), t.clone()).b()))),
            (Comb::Partition, Ty::Iter(t)) => {
                // `partition` needs its result type from the consumer: a typed `->` follows (as in the
                // repository's own tests); rendered as one unit
                let o = self.pred(t, allow_cap);
                let out = Ty::Tup(Ty::Vec(t.clone()).b(), Ty::Vec(t.clone()).b());
                let mut op = self.plain(c, vec![o], out.clone());
                op.operands.push(format!("@then |v: {}| v", out.name()));
                Some(op)
            }
            (Comb::Flatten, Ty::Iter(t)) => match &**t {
                Ty::Vec(u) | Ty::Opt(u) => Some(self.plain(c, vec![], Ty::Iter(u.clone()))),
                _ => None,
            },
            (Comb::Fold, Ty::Iter(t)) => {
                let acc = self.any_ty(1);
                let i = self.altv(&acc, allow_cap_val);
                let id = self.id();
                let f = self.maybe_cap(format!("cb2::<{}, {}, {}>({})", acc.name(), t.name(), acc.name(), id), allow_cap);
                Some(self.plain(c, vec![i, f], acc))
            }
            (Comb::TryFold, Ty::Iter(t)) => {
                let acc = self.any_ty(1);
                let i = self.altv(&acc, allow_cap_val);
                let id = self.id();
                let res = if rb(self.rng, 0.5) { Ty::Opt(acc.clone().b()) } else { Ty::Res(acc.clone().b()) };
                let f = self.maybe_cap(format!("cb2::<{}, {}, {}>({})", acc.name(), t.name(), res.name(), id), allow_cap);
                Some(self.plain(c, vec![i, f], res))
            }
            (Comb::Zip, Ty::Iter(t)) => {
                let u = self.any_ty(0);
                let o = self.altv(&Ty::Vec(u.clone().b()), allow_cap_val);
                Some(self.plain(c, vec![o], Ty::Iter(Ty::Tup(t.clone(), u.b()).b())))
            }
            (Comb::Chain, Ty::Iter(t)) => {
                let o = self.altv(&Ty::Vec(t.clone()), allow_cap_val);
                Some(self.plain(c, vec![o], cur.clone()))
            }
            (Comb::Collect, Ty::Iter(t)) => {
                let out = Ty::Vec(t.clone());
                if rb(self.rng, 0.6) {
                    let ty = if rb(self.rng, 0.5) { out.name() } else { "Vec<_>".to_string() };
                    Some(self.plain(c, vec![ty], out))
                } else {
                    let mut op = self.plain(c, vec![], out.clone());
                    op.operands.push(format!("@then |v: {}| v", out.name()));
                    Some(op)
                }
            }
            (Comb::Unzip, Ty::Iter(t)) => match &**t {
                Ty::Tup(a, b) => {
                    let out = Ty::Tup(Ty::Vec(a.clone()).b(), Ty::Vec(b.clone()).b());
                    if rb(self.rng, 0.6) {
                        Some(self.plain(c, vec![a.name(), b.name(), format!("Vec<{}>", a.name()), format!("Vec<{}>", b.name())], out))
                    } else {
                        let mut op = self.plain(c, vec![], out.clone());
                        op.operands.push(format!("@then |v: {}| v", out.name()));
                        Some(op)
                    }
                }
                _ => None,
            },
            // ------------------------------------------------ inspect
            (Comb::Inspect, Ty::Iter(t)) => {
                let id = self.id();
                if sync {
                    // sync `??` hands the callback a reference to the whole (unnameable) iterator
                    Some(self.plain(c, vec![format!("insany({})", id)], cur.clone()))
                } else {
                    Some(self.plain(c, vec![self_ins(t, id)], cur.clone()))
                }
            }
            (Comb::Inspect, Ty::Opt(t)) | (Comb::Inspect, Ty::Res(t)) if !sync => {
                // async macros: `.inspect(e)` of the value itself (Option::inspect / Result::inspect)
                let id = self.id();
                Some(self.plain(c, vec![self_ins(t, id)], cur.clone()))
            }
            (Comb::Inspect, t) if sync && !matches!(t, Ty::Ref(_)) => {
                let id = self.id();
                // (bounds programs: half of the inspectors hold an `Rc`)
                let core = if self.ns > 0.0 && self.depth == 0 && rb(self.rng, 0.5) { format!("ins_ns::<{}>({})", t.name(), id) } else { format!("ins::<{}>({})", t.name(), id) };
                let o = self.maybe_cap(core, allow_cap);
                Some(self.plain(c, vec![o], cur.clone()))
            }
            // ------------------------------------------------ member access
            (Comb::Dot, t) => self.dot(t),
            // ------------------------------------------------ call with value
            (Comb::Then, Ty::Iter(t)) => {
                let id = self.id();
                Some(self.plain(c, vec![format!("to_vec({})", id)], Ty::Vec(t.clone())))
            }
            (Comb::Then, Ty::Ref(t)) => {
                // inside wrapper bodies over references: consume the reference
                let id = self.id();
                let k = self.rng.random_range(0..2);
                if k == 0 {
                    Some(self.plain(c, vec![format!("pred::<{}>({})", t.name(), id)], Ty::Bool))
                } else {
                    Some(self.plain(c, vec![format!("ins::<{}>({})", t.name(), id)], Ty::Unit))
                }
            }
            (Comb::Then, t) => {
                let k = self.rng.random_range(0..5);
                if k == 0 && t.depth() < 2 {
                    Some(self.plain(c, vec!["Some".into()], Ty::Opt(t.clone().b())))
                } else if k == 1 && t.depth() < 2 {
                    Some(self.plain(c, vec!["Ok::<_, i64>".into()], Ty::Res(t.clone().b())))
                } else {
                    let u = self.any_ty(2);
                    let o = self.cb(t, &u, allow_cap);
                    Some(self.plain(c, vec![o], u))
                }
            }
            _ => None,
        }
    }

    fn dot(&mut self, t: &Ty) -> Option<COp> {
        let mut cands: Vec<(String, Ty)> = Vec::new();
        match t {
            Ty::I64 => {
                cands.push((format!("wrapping_add({})", self.rng.random_range(1..9)), Ty::I64));
                cands.push(("abs()".into(), Ty::I64));
            }
            Ty::Usize => cands.push((format!("wrapping_mul({})", self.rng.random_range(2..5)), Ty::Usize)),
            Ty::Bool => cands.push(("then(|| 7i64)".into(), Ty::Opt(Ty::I64.b()))),
            Ty::Tup(a, b) => {
                cands.push(("0".into(), (**a).clone()));
                cands.push(("1".into(), (**b).clone()));
            }
            Ty::Vec(u) => {
                cands.push(("into_iter()".into(), Ty::Iter(u.clone())));
                cands.push(("len()".into(), Ty::Usize));
            }
            Ty::Opt(u) => {
                cands.push(("is_some()".into(), Ty::Bool));
                cands.push(("into_iter()".into(), Ty::Iter(u.clone())));
                cands.push(("ok_or(3i64)".into(), Ty::Res(u.clone())));
                if default_ok(u) {
                    cands.push(("unwrap_or_default()".into(), (**u).clone()));
                }
            }
            Ty::Res(u) => {
                cands.push(("is_ok()".into(), Ty::Bool));
                cands.push(("ok()".into(), Ty::Opt(u.clone())));
                if default_ok(u) {
                    cands.push(("unwrap_or_default()".into(), (**u).clone()));
                }
            }
            Ty::Iter(u) => {
                cands.push(("count()".into(), Ty::Usize));
                cands.push(("last()".into(), Ty::Opt(u.clone())));
                cands.push(("nth(1)".into(), Ty::Opt(u.clone())));
                cands.push(("skip(1)".into(), t.clone()));
                cands.push(("take(2)".into(), t.clone()));
                cands.push(("step_by(2)".into(), t.clone()));
                if **u == Ty::I64 {
                    cands.push(("sum::<i64>()".into(), Ty::I64));
                    cands.push(("max()".into(), Ty::Opt(Ty::I64.b())));
                }
            }
            Ty::Ref(u) => {
                if clone_ok(u) {
                    cands.push(("clone()".into(), (**u).clone()));
                }
            }
            Ty::Unit | Ty::Ck | Ty::Ns | Ty::Mv | Ty::Sn | Ty::Fut(_) | Ty::Stream(_) => {}
        }
        if cands.is_empty() {
            return None;
        }
        let (m, out) = self.pick(&cands);
        Some(self.plain(Comb::Dot, vec![m], out))
    }

    /// `X >>> inner <<<` on `cur`
    fn try_wrapper(&mut self, c: Comb, cur: &Ty, _in_wrapper: bool) -> Option<COp> {
        if matches!(cur, Ty::Fut(_) | Ty::Stream(_)) {
            return self.try_future_wrapper(c, cur);
        }
        // (parameter type of the closure, goal type of the body, resulting type as a function of the body's type)
        let sync = self.fam == Family::Sync;
        let (param, goal, out): (Ty, Option<Ty>, Box<dyn Fn(&Ty) -> Ty>) = match (c, cur) {
            (Comb::Map, Ty::Opt(t)) => ((**t).clone(), None, Box::new(|b: &Ty| Ty::Opt(b.clone().b()))),
            (Comb::Map, Ty::Res(t)) => ((**t).clone(), None, Box::new(|b: &Ty| Ty::Res(b.clone().b()))),
            (Comb::Map, Ty::Iter(t)) => ((**t).clone(), None, Box::new(|b: &Ty| Ty::Iter(b.clone().b()))),
            (Comb::AndThen, Ty::Opt(t)) => {
                let g = Ty::Opt(self.any_ty(1).b());
                ((**t).clone(), Some(g.clone()), Box::new(move |_| g.clone()))
            }
            (Comb::AndThen, Ty::Res(t)) => {
                let g = Ty::Res(self.any_ty(1).b());
                ((**t).clone(), Some(g.clone()), Box::new(move |_| g.clone()))
            }
            (Comb::Filter, Ty::Opt(t)) | (Comb::Filter, Ty::Iter(t)) => {
                let cur2 = cur.clone();
                (Ty::Ref(t.clone()), Some(Ty::Bool), Box::new(move |_| cur2.clone()))
            }
            (Comb::Find, Ty::Iter(t)) => {
                let o = Ty::Opt(t.clone());
                (Ty::Ref(t.clone()), Some(Ty::Bool), Box::new(move |_| o.clone()))
            }
            (Comb::Partition, Ty::Iter(t)) => {
                let o = Ty::Tup(Ty::Vec(t.clone()).b(), Ty::Vec(t.clone()).b());
                (Ty::Ref(t.clone()), Some(Ty::Bool), Box::new(move |_| o.clone()))
            }
            (Comb::FilterMap, Ty::Iter(t)) => {
                let u = self.any_ty(1);
                let g = Ty::Opt(u.clone().b());
                ((**t).clone(), Some(g), Box::new(move |_| Ty::Iter(u.clone().b())))
            }
            (Comb::FindMap, Ty::Iter(t)) => {
                let u = self.any_ty(1);
                let g = Ty::Opt(u.clone().b());
                let g2 = g.clone();
                ((**t).clone(), Some(g), Box::new(move |_| g2.clone()))
            }
            (Comb::OrElse, Ty::Res(_)) => {
                let cur2 = cur.clone();
                (Ty::I64, Some(cur.clone()), Box::new(move |_| cur2.clone()))
            }
            (Comb::MapErr, Ty::Res(_)) => {
                let cur2 = cur.clone();
                (Ty::I64, Some(Ty::I64), Box::new(move |_| cur2.clone()))
            }
            (Comb::Inspect, t) if sync && !matches!(t, Ty::Iter(_) | Ty::Ref(_)) => {
                let cur2 = cur.clone();
                (Ty::Ref(t.clone().b()), Some(Ty::Unit), Box::new(move |_| cur2.clone()))
            }
            (Comb::Inspect, Ty::Iter(t)) | (Comb::Inspect, Ty::Opt(t)) | (Comb::Inspect, Ty::Res(t)) if !sync => {
                let cur2 = cur.clone();
                (Ty::Ref(t.clone()), Some(Ty::Unit), Box::new(move |_| cur2.clone()))
            }
            _ => return None,
        };
        self.depth += 1;
        let saved_no_count = self.no_count;
        if c == Comb::Inspect {
            self.no_count = true;
        }
        let len = self.rng.random_range(0..4usize);
        let (inner, body_ty) = self.walk(&param, len, goal.as_ref(), true);
        self.no_count = saved_no_count;
        self.depth -= 1;
        let out_ty = out(&body_ty);
        let mut op = COp { comb: c, alt: false, deferred: false, operands: vec![], inner: Some(inner), closed: true, out: out_ty.clone() };
        if c == Comb::Partition {
            // typed consumer after the closed wrapper
            op.operands.push(format!("@then |v: {}| v", out_ty.name()));
        }
        Some(op)
    }

    fn acb(&mut self, a: &Ty, b: &Ty) -> String {
        let id = self.id();
        format!("acb::<{}, {}>({})", a.name(), b.name(), id)
    }

    /// edges on futures and streams (async macros, real futures)
    fn try_future_comb(&mut self, c: Comb, cur: &Ty, allow_cap: bool, _in_wrapper: bool) -> Option<COp> {
        // a future of a future / stream of streams can only be flattened
        if let Ty::Fut(t) | Ty::Stream(t) = cur {
            if matches!(**t, Ty::Fut(_) | Ty::Stream(_)) && c != Comb::Flatten {
                return None;
            }
        }
        match (c, cur) {
            // ---------------------------------------------------------------- futures
            (Comb::Map, Ty::Fut(t)) => {
                if rb(self.rng, 0.2) {
                    // map to a future; the next operator can only be `^^>` (flatten)
                    let u = self.any_ty(1);
                    let o = self.acb(t, &u);
                    return Some(self.plain(Comb::Map, vec![o], Ty::Fut(Ty::Fut(u.b()).b())));
                }
                let u = self.any_ty(1);
                let o = self.cb(t, &u, allow_cap);
                Some(self.plain(c, vec![o], Ty::Fut(u.b())))
            }
            (Comb::Flatten, Ty::Fut(t)) => match &**t {
                Ty::Fut(u) => Some(self.plain(c, vec![], Ty::Fut(u.clone()))),
                _ => None,
            },
            (Comb::Inspect, Ty::Fut(t)) => {
                if matches!(**t, Ty::Fut(_)) {
                    return None;
                }
                let id = self.id();
                let o = self.maybe_cap(format!("ins::<{}>({})", t.name(), id), allow_cap);
                Some(self.plain(c, vec![o], cur.clone()))
            }
            (Comb::Dot, Ty::Fut(t)) => {
                if matches!(**t, Ty::Fut(_)) {
                    return Some(self.plain(Comb::Dot, vec!["flatten()".into()], (**t).clone()));
                }
                let mut cands: Vec<(String, Ty)> = Vec::new();
                let u = self.any_ty(1);
                cands.push((format!("then({})", self.acb(t, &u)), Ty::Fut(u.b())));
                if let Ty::Res(x) = &**t {
                    let y = self.any_ty(1);
                    let id = self.id();
                    cands.push((format!("map_ok(cbf::<{}, {}>({}))", x.name(), y.name(), id), Ty::Fut(Ty::Res(y.b()).b())));
                    let id2 = self.id();
                    cands.push((format!("unwrap_or_else(cbf::<i64, {}>({}))", x.name(), id2), Ty::Fut(x.clone())));
                }
                let (m, out) = self.pick(&cands);
                Some(self.plain(Comb::Dot, vec![m], out))
            }
            (Comb::Then, Ty::Fut(t)) => {
                if matches!(**t, Ty::Fut(_)) {
                    return None;
                }
                let u = self.any_ty(1);
                let id = self.id();
                Some(self.plain(c, vec![format!("fthen::<{}, {}, _>({})", t.name(), u.name(), id)], Ty::Fut(u.b())))
            }
            (Comb::AndThen, Ty::Fut(t)) => match &**t {
                Ty::Res(x) => {
                    let y = Ty::Res(self.any_ty(1).b());
                    let o = self.acb(x, &y);
                    Some(self.plain(c, vec![o], Ty::Fut(y.b())))
                }
                _ => None,
            },
            (Comb::OrElse, Ty::Fut(t)) => match &**t {
                Ty::Res(_) => {
                    let o = self.acb(&Ty::I64, t);
                    Some(self.plain(c, vec![o], cur.clone()))
                }
                _ => None,
            },
            (Comb::MapErr, Ty::Fut(t)) => match &**t {
                Ty::Res(_) => {
                    let o = self.cb(&Ty::I64, &Ty::I64, allow_cap);
                    Some(self.plain(c, vec![o], cur.clone()))
                }
                _ => None,
            },
            // ---------------------------------------------------------------- streams
            (Comb::Map, Ty::Stream(t)) => {
                if rb(self.rng, 0.2) {
                    // map every item to a stream, then flatten
                    let u = self.any_ty(0);
                    let id = self.id();
                    return Some(self.plain(c, vec![format!("to_stream::<{}, {}>({})", t.name(), u.name(), id)], Ty::Stream(Ty::Stream(u.b()).b())));
                }
                let u = self.any_ty(1);
                let o = self.cb(t, &u, allow_cap);
                Some(self.plain(c, vec![o], Ty::Stream(u.b())))
            }
            (Comb::Flatten, Ty::Stream(t)) => match &**t {
                Ty::Stream(u) => Some(self.plain(c, vec![], Ty::Stream(u.clone()))),
                _ => None,
            },
            (_, Ty::Stream(t)) if matches!(**t, Ty::Stream(_)) => None,
            (Comb::Filter, Ty::Stream(t)) => {
                let id = self.id();
                Some(self.plain(c, vec![format!("apred::<{}>({})", t.name(), id)], cur.clone()))
            }
            (Comb::FilterMap, Ty::Stream(t)) => {
                let u = self.any_ty(1);
                let o = self.acb(t, &Ty::Opt(u.clone().b()));
                Some(self.plain(c, vec![o], Ty::Stream(u.b())))
            }
            (Comb::Enumerate, Ty::Stream(t)) => Some(self.plain(c, vec![], Ty::Stream(Ty::Tup(Ty::Usize.b(), t.clone()).b()))),
            (Comb::Inspect, Ty::Stream(t)) => {
                let id = self.id();
                let o = self.maybe_cap(format!("ins::<{}>({})", t.name(), id), allow_cap);
                Some(self.plain(c, vec![o], cur.clone()))
            }
            (Comb::Fold, Ty::Stream(t)) => {
                let acc = self.any_ty(1);
                let i = self.altv(&acc, allow_cap);
                let id = self.id();
                Some(self.plain(c, vec![i, format!("acb2::<{}, {}, {}>({})", acc.name(), t.name(), acc.name(), id)], Ty::Fut(acc.b())))
            }
            (Comb::TryFold, Ty::Stream(t)) => match &**t {
                Ty::Res(x) => {
                    let acc = self.any_ty(1);
                    let i = self.altv(&acc, allow_cap);
                    let id = self.id();
                    let r = Ty::Res(acc.clone().b());
                    Some(self.plain(c, vec![i, format!("acb2::<{}, {}, {}>({})", acc.name(), x.name(), r.name(), id)], Ty::Fut(r.b())))
                }
                _ => None,
            },
            (Comb::Chain, Ty::Stream(t)) => {
                let id = self.id();
                Some(self.plain(c, vec![format!("sval::<{}>({})", t.name(), id)], cur.clone()))
            }
            (Comb::Zip, Ty::Stream(t)) => {
                let u = self.any_ty(0);
                let id = self.id();
                Some(self.plain(c, vec![format!("sval::<{}>({})", u.name(), id)], Ty::Stream(Ty::Tup(t.clone(), u.b()).b())))
            }
            (Comb::Collect, Ty::Stream(t)) => {
                let out = Ty::Vec(t.clone());
                Some(self.plain(c, vec![out.name()], Ty::Fut(out.b())))
            }
            (Comb::Unzip, Ty::Stream(t)) => match &**t {
                Ty::Tup(a, b) => {
                    let out = Ty::Tup(Ty::Vec(a.clone()).b(), Ty::Vec(b.clone()).b());
                    Some(self.plain(c, vec![a.name(), b.name(), format!("Vec<{}>", a.name()), format!("Vec<{}>", b.name())], Ty::Fut(out.b())))
                }
                _ => None,
            },
            (Comb::Dot, Ty::Stream(t)) => {
                let cands: Vec<(String, Ty)> = vec![("take(2)".into(), cur.clone()), ("skip(1)".into(), cur.clone()), ("count()".into(), Ty::Fut(Ty::Usize.b())), (format!("collect::<Vec<{}>>()", t.name()), Ty::Fut(Ty::Vec(t.clone()).b()))];
                let (m, out) = self.pick(&cands);
                Some(self.plain(Comb::Dot, vec![m], out))
            }
            _ => None,
        }
    }

    /// `X >>> inner <<<` over a future or a stream: the body sees a plain value
    fn try_future_wrapper(&mut self, c: Comb, cur: &Ty) -> Option<COp> {
        // (closure parameter, goal of the body, result type given the body's type)
        let nested = |t: &Ty| matches!(t, Ty::Fut(_) | Ty::Stream(_));
        let (param, goal, out): (Ty, Option<Ty>, Box<dyn Fn(&Ty) -> Ty>) = match (c, cur) {
            (Comb::Map, Ty::Fut(t)) if !nested(t) => ((**t).clone(), None, Box::new(|b: &Ty| Ty::Fut(b.clone().b()))),
            (Comb::Map, Ty::Stream(t)) if !nested(t) => ((**t).clone(), None, Box::new(|b: &Ty| Ty::Stream(b.clone().b()))),
            (Comb::Inspect, Ty::Fut(t)) | (Comb::Inspect, Ty::Stream(t)) if !nested(t) => {
                let cur2 = cur.clone();
                (Ty::Ref(t.clone()), Some(Ty::Unit), Box::new(move |_| cur2.clone()))
            }
            (Comb::AndThen, Ty::Fut(t)) => match &**t {
                Ty::Res(x) => {
                    let g = Ty::Fut(Ty::Res(self.any_ty(1).b()).b());
                    let g2 = g.clone();
                    ((**x).clone(), Some(g), Box::new(move |_| g2.clone()))
                }
                _ => return None,
            },
            (Comb::OrElse, Ty::Fut(t)) => match &**t {
                Ty::Res(_) => {
                    let cur2 = cur.clone();
                    (Ty::I64, Some(cur.clone()), Box::new(move |_| cur2.clone()))
                }
                _ => return None,
            },
            (Comb::MapErr, Ty::Fut(t)) => match &**t {
                Ty::Res(_) => {
                    let cur2 = cur.clone();
                    (Ty::I64, Some(Ty::I64), Box::new(move |_| cur2.clone()))
                }
                _ => return None,
            },
            (Comb::Filter, Ty::Stream(t)) if !nested(t) => {
                let cur2 = cur.clone();
                (Ty::Ref(t.clone()), Some(Ty::Fut(Ty::Bool.b())), Box::new(move |_| cur2.clone()))
            }
            (Comb::FilterMap, Ty::Stream(t)) if !nested(t) => {
                let u = self.any_ty(1);
                let g = Ty::Fut(Ty::Opt(u.clone().b()).b());
                ((**t).clone(), Some(g), Box::new(move |_| Ty::Stream(u.clone().b())))
            }
            _ => return None,
        };
        self.depth += 1;
        let len = self.rng.random_range(0..3usize);
        let (inner, body_ty) = self.walk(&param, len, goal.as_ref(), true);
        self.depth -= 1;
        let out_ty = out(&body_ty);
        Some(COp { comb: c, alt: false, deferred: false, operands: vec![], inner: Some(inner), closed: true, out: out_ty })
    }

    /// a chain of about `len` operators from `from`; if `goal` is given the chain ends in that type
    /// (a final typed `->` converts anything, so construction never needs rejection)
    pub fn walk(&mut self, from: &Ty, len: usize, goal: Option<&Ty>, in_wrapper: bool) -> (Vec<COp>, Ty) {
        let mut ops = Vec::new();
        let mut cur = from.clone();
        for _ in 0..len {
            let op = self.step(&cur, in_wrapper);
            cur = op.out.clone();
            ops.push(op);
        }
        // a goal that is a future: reach its output type, then `-> ready`
        if let Some(Ty::Fut(gi)) = goal {
            if !matches!(cur, Ty::Fut(_)) {
                let (mut more, _) = self.walk_to(&cur, gi);
                ops.append(&mut more);
                ops.push(self.plain(Comb::Then, vec!["ready".into()], Ty::Fut(gi.clone())));
                return (ops, Ty::Fut(gi.clone()));
            }
        }
        // a reference cannot leave a closure body
        if let Some(g) = goal {
            if &cur != g {
                match (&cur, g) {
                    (Ty::Ref(t), Ty::Bool) => {
                        let id = self.id();
                        ops.push(self.plain(Comb::Then, vec![format!("pred::<{}>({})", t.name(), id)], Ty::Bool));
                    }
                    (Ty::Ref(t), Ty::Unit) => {
                        let id = self.id();
                        ops.push(self.plain(Comb::Then, vec![format!("ins::<{}>({})", t.name(), id)], Ty::Unit));
                    }
                    (Ty::Ref(_), _) => unreachable!("reference bodies only have bool / unit goals"),
                    (Ty::Iter(t), _) => {
                        let id = self.id();
                        let v = Ty::Vec(t.clone());
                        ops.push(self.plain(Comb::Then, vec![format!("to_vec({})", id)], v.clone()));
                        let o = self.cb(&v, g, false);
                        ops.push(self.plain(Comb::Then, vec![o], g.clone()));
                    }
                    _ => {
                        let o = self.cb(&cur, g, false);
                        ops.push(self.plain(Comb::Then, vec![o], g.clone()));
                    }
                }
                cur = g.clone();
            }
        } else {
            match &cur {
                Ty::Ref(t) => {
                    // must not return the reference: consume it
                    let id = self.id();
                    ops.push(self.plain(Comb::Then, vec![format!("pred::<{}>({})", t.name(), id)], Ty::Bool));
                    cur = Ty::Bool;
                }
                Ty::Iter(t) if in_wrapper => {
                    let id = self.id();
                    cur = Ty::Vec(t.clone());
                    ops.push(self.plain(Comb::Then, vec![format!("to_vec({})", id)], cur.clone()));
                }
                _ => {}
            }
        }
        (ops, cur)
    }
}

impl<'a> CG<'a> {
    /// operators converting `cur` into `goal` (no extra random steps)
    fn walk_to(&mut self, cur: &Ty, goal: &Ty) -> (Vec<COp>, Ty) {
        self.walk(cur, 0, Some(goal), true)
    }
}

fn self_ins(t: &Ty, id: u32) -> String {
    format!("ins::<{}>({})", t.name(), id)
}

fn default_ok(t: &Ty) -> bool {
    match t {
        Ty::Res(_) | Ty::Iter(_) | Ty::Ref(_) | Ty::Fut(_) | Ty::Stream(_) => false,
        Ty::Opt(_) | Ty::Vec(_) => true,
        Ty::Tup(a, b) => default_ok(a) && default_ok(b),
        _ => true,
    }
}

fn clone_ok(t: &Ty) -> bool {
    match t {
        Ty::Iter(_) | Ty::Ref(_) | Ty::Ns | Ty::Mv | Ty::Sn | Ty::Fut(_) | Ty::Stream(_) => false,
        Ty::Opt(u) | Ty::Res(u) | Ty::Vec(u) => clone_ok(u),
        Ty::Tup(a, b) => clone_ok(a) && clone_ok(b),
        _ => true,
    }
}

// ------------------------------------------------------------------------------ rendering

fn render_ops(ops: &[COp], out: &mut String) {
    for op in ops {
        out.push(' ');
        if op.deferred {
            out.push('~');
        }
        out.push_str(token(op.comb, op.alt));
        if let Some(inner) = &op.inner {
            out.push_str(" >>>");
            render_ops(inner, out);
            if op.closed {
                out.push_str(" <<<");
            }
            for o in &op.operands {
                if let Some(t) = o.strip_prefix("@then ") {
                    out.push_str(&format!(" -> {}", t));
                }
            }
            continue;
        }
        let normal: Vec<&String> = op.operands.iter().filter(|o| !o.starts_with("@then ")).collect();
        if !normal.is_empty() {
            out.push(' ');
            out.push_str(&normal.iter().map(|s| s.as_str()).collect::<Vec<_>>().join(", "));
        }
        for o in &op.operands {
            if let Some(t) = o.strip_prefix("@then ") {
                out.push_str(&format!(" -> {}", t));
            }
        }
    }
}

pub fn render_branch_macro(b: &ChainBranch) -> String {
    let mut s = match &b.let_name {
        // C12: a `let` name in front of a branch does not change what the branch evaluates to
        Some((n, m)) => format!("let {}{} = {}", if *m { "mut " } else { "" }, n, b.init_text),
        None => b.init_text.clone(),
    };
    render_ops(&b.ops, &mut s);
    s
}

/// the documented method chain (README "Combinators" / "Nested combinators"), same operand text
fn ref_apply(prev: String, op: &COp, fam: Family) -> String {
    let normal: Vec<&String> = op.operands.iter().filter(|o| !o.starts_with("@then ")).collect();
    let o = |i: usize| normal[i].clone();
    let method = |m: &str, arg: String| format!("{}.{}({})", prev, m, arg);
    let arg0 = |inner: &Option<Vec<COp>>| -> String {
        match inner {
            Some(ops) => {
                // `X >>> inner <<<`  =>  `.x(|v| v inner...)`
                let mut body = "__w".to_string();
                for iop in ops {
                    body = ref_apply(body, iop, fam);
                }
                format!("|__w| {}", body)
            }
            None => o(0),
        }
    };
    let mut r = match op.comb {
        Comb::Map => method("map", arg0(&op.inner)),
        Comb::AndThen => method("and_then", arg0(&op.inner)),
        Comb::Filter => method("filter", arg0(&op.inner)),
        Comb::Dot => format!("{}.{}", prev, o(0)),
        Comb::Then => format!("({})({})", o(0), prev),
        Comb::Or => method("or", o(0)),
        Comb::OrElse => method("or_else", arg0(&op.inner)),
        Comb::MapErr => method("map_err", arg0(&op.inner)),
        Comb::Collect => {
            if normal.is_empty() {
                format!("{}.collect()", prev)
            } else {
                format!("{}.collect::<{}>()", prev, o(0))
            }
        }
        Comb::Chain => method("chain", o(0)),
        Comb::FindMap => method("find_map", arg0(&op.inner)),
        Comb::FilterMap => method("filter_map", arg0(&op.inner)),
        Comb::Enumerate => format!("{}.enumerate()", prev),
        Comb::Partition => method("partition", arg0(&op.inner)),
        Comb::Flatten => format!("{}.flatten()", prev),
        Comb::Fold => format!("{}.fold({}, {})", prev, o(0), o(1)),
        Comb::TryFold => format!("{}.try_fold({}, {})", prev, o(0), o(1)),
        Comb::Find => method("find", arg0(&op.inner)),
        Comb::Zip => method("zip", o(0)),
        Comb::Unzip => {
            if normal.is_empty() {
                format!("{}.unzip()", prev)
            } else {
                format!("{}.unzip::<{}>()", prev, normal.iter().map(|s| s.as_str()).collect::<Vec<_>>().join(", "))
            }
        }
        Comb::Inspect => match fam {
            Family::Sync => format!("inspect_ref({}, {})", arg0(&op.inner), prev),
            Family::AsyncClosed | Family::AsyncReal => method("inspect", arg0(&op.inner)),
        },
    };
    for x in &op.operands {
        if let Some(t) = x.strip_prefix("@then ") {
            r = format!("({})({})", t, r);
        }
    }
    r
}

pub fn ref_apply_pub(prev: String, op: &COp, fam: Family) -> String {
    ref_apply(prev, op, fam)
}

pub fn render_branch_ref(b: &ChainBranch, fam: Family) -> String {
    let mut e = format!("({})", b.init_text);
    for op in &b.ops {
        e = ref_apply(e, op, fam);
    }
    e
}
