//! C01 / C02: differential check of typed chains - the macro against the documented method
//! chain compiled next to it.

use crate::batch::{self, CaseSrc};
use crate::chain::*;
use crate::evid::{self, Evidence};
use jvrt::prog::{macro_kind, MACROS};
use jvrt::runner::new_runner;
use proptest::prelude::*;
use proptest::strategy::ValueTree;
use proptest::test_runner::TestRng;
use serde_json::{json, Value};
use std::collections::{BTreeMap, HashSet};
use std::time::Instant;

fn rb(rng: &mut TestRng, p: f64) -> bool {
    p > 0.0 && rng.random_bool(p.min(1.0))
}

fn init_for(g: &mut CG, comb: Option<Comb>, want_wrapper: bool) -> (Ty, Vec<COp>) {
    // initial type (and a leading `..into_iter()` when an iterator is needed) suiting the forced combinator
    let item = g.any_ty(1);
    let iter = |t: Ty| -> (Ty, Vec<COp>) {
        let v = Ty::Vec(Box::new(t.clone()));
        (v, vec![COp { comb: Comb::Dot, alt: false, deferred: false, operands: vec!["into_iter()".into()], inner: None, closed: true, out: Ty::Iter(Box::new(t)) }])
    };
    let k = g.rng.random_range(0..3);
    let _ = want_wrapper;
    match comb {
        Some(Comb::MapErr) => (Ty::Res(Box::new(item)), vec![]),
        Some(Comb::OrElse) => {
            if want_wrapper || k == 0 {
                (Ty::Res(Box::new(item)), vec![])
            } else {
                (Ty::Opt(Box::new(item)), vec![])
            }
        }
        Some(Comb::Chain) | Some(Comb::FindMap) | Some(Comb::FilterMap) | Some(Comb::Enumerate) | Some(Comb::Partition) | Some(Comb::Fold) | Some(Comb::TryFold) | Some(Comb::Find) | Some(Comb::Collect) => iter(item),
        Some(Comb::Flatten) => match k {
            0 => (Ty::Opt(Box::new(Ty::Opt(Box::new(item)))), vec![]),
            1 => (Ty::Res(Box::new(Ty::Res(Box::new(item)))), vec![]),
            _ => iter(Ty::Vec(Box::new(item))),
        },
        Some(Comb::Unzip) => {
            let t = Ty::Tup(Box::new(item), Box::new(g.any_ty(0)));
            if k == 0 {
                (Ty::Opt(Box::new(t)), vec![])
            } else {
                iter(t)
            }
        }
        Some(Comb::AndThen) | Some(Comb::Or) => {
            if k == 0 {
                (Ty::Res(Box::new(item)), vec![])
            } else {
                (Ty::Opt(Box::new(item)), vec![])
            }
        }
        _ => match k {
            0 => (Ty::Opt(Box::new(item)), vec![]),
            1 => (Ty::Res(Box::new(item)), vec![]),
            _ => iter(item),
        },
    }
}

#[derive(Clone, Copy, PartialEq, Debug)]
pub enum Which {
    C01,
    C02,
    /// chain stage of C10: exactly-once evaluation and move-only handling of counted values
    C10,
    /// chain stage of C11: order of block operands, both operands of fold / try_fold
    C11,
    /// bounds stage of C19: move-only / !Send values, borrows of the caller's stack
    C19,
    /// nesting stage of C17: macros nested inside operands, captures, initial values, to depth 3
    C17,
    /// chain stage of C12: a `let` name in front of a branch does not change the result
    C12,
    /// bounds stage of C07: the spawning macros accept every Send + 'static value
    C07,
    /// fragment stage of C14: operands handed in as `expr` fragments of a `macro_rules!` wrapper
    C14,
    /// chain stage of C06: `~` inside the sync try macros (wherever a step can end in the Option / Result
    /// of the macro); the reference stops at the end of the first step in which a branch fails
    C06,
    /// chain stage of C03: `~` in front of every operator spelling, several branches; the reference is
    /// evaluated step by step across the branches and marks the step boundaries
    C03,
}

/// closing mode of the forced wrapper (C02): 0 explicit `<<<`, 1 implicit at the end of a step, 2 implicit at the end of the branch
fn gen_prog(rng: &mut TestRng, i: usize, which: Which) -> ChainProg {
    let mac = match which {
        Which::C19 => ["join", "try_join", "join_async", "try_join_async"][i % 4],
        Which::C07 => ["join_spawn", "try_join_spawn", "spawn", "try_spawn", "join_async_spawn", "try_join_async_spawn", "async_spawn", "try_async_spawn"][i % 8],
        // the non-try macros (the generator places `~` only there: a failing try step ends the evaluation)
        Which::C03 => ["join", "join_spawn", "join", "spawn", "join_async", "join", "join_async_spawn", "async_spawn"][i % 8],
        Which::C06 => ["try_join", "try_join_spawn", "try_join", "try_spawn"][i % 4],
        _ => MACROS[i % 12],
    };
    let kind = macro_kind(mac);
    let real_ok = |c: Comb| matches!(c, Comb::Map | Comb::AndThen | Comb::Filter | Comb::Dot | Comb::Then | Comb::OrElse | Comb::MapErr | Comb::Collect | Comb::Chain | Comb::FilterMap | Comb::Enumerate | Comb::Flatten | Comb::Fold | Comb::TryFold | Comb::Zip | Comb::Unzip | Comb::Inspect);
    let forced_comb = match which {
        Which::C01 | Which::C10 | Which::C14 | Which::C03 | Which::C06 => Some(SPELLINGS[i % 22].1),
        Which::C02 => Some(WRAPPERS[(i / 3) % 10]),
        _ => None,
    };
    let wrapper_real_ok = |c: Comb| matches!(c, Comb::Map | Comb::AndThen | Comb::Filter | Comb::Inspect | Comb::FilterMap | Comb::OrElse | Comb::MapErr);
    let can_real = matches!(which, Which::C01 | Which::C02 | Which::C03) && forced_comb.map(|c| if which == Which::C02 { wrapper_real_ok(c) } else { real_ok(c) }).unwrap_or(true);
    // async macros: half of the programs run over real futures / streams, half over sync chains closed with `-> ready`
    // (C03: always real futures where the forced operator has an async edge - only those chains can carry `~`)
    let fam = if kind.is_async { if can_real && ((i / 12) % 2 == 1 || which == Which::C03) { Family::AsyncReal } else { Family::AsyncClosed } } else { Family::Sync };
    let mut nb = 1 + (rng.random_range(0..6usize) / 3) + if rb(rng, 0.15) { 1 } else { 0 }; // mostly 1-2, sometimes 3
    if which == Which::C19 {
        nb = rng.random_range(1..8usize); // wide joins too
    }
    if which == Which::C07 || which == Which::C03 || which == Which::C06 {
        nb = rng.random_range(2..5usize); // at least two branches: something is spawned
    }
    let try_res = rb(rng, 0.5) || kind.is_async;
    // C17 "shadow" programs: `let` names on the branches, locals of the calling function with the same
    // names, and a handler that mentions them - it must see the caller's locals
    let shadow = which == Which::C17 && (i / 12) % 4 == 1;
    if shadow {
        nb = rng.random_range(2..5usize);
    }
    // C01: every fifth round of the 22 spellings hands its initial values and expression operands in as
    // `expr` fragments of a `macro_rules!` wrapper (no block captures there: a block inside a fragment is
    // not a block operand)
    let frag_c01 = which == Which::C01 && (i / 22) % 5 == 4;
    let (force, close_mode) = match which {
        Which::C01 | Which::C10 | Which::C14 | Which::C03 | Which::C06 => {
            let (sp, c) = SPELLINGS[i % 22];
            (Some((c, sp == ">.", false)), 0)
        }
        Which::C19 | Which::C17 | Which::C12 | Which::C07 => (None, 0),
        Which::C11 => {
            // every operator that takes expression operands; fold / try_fold (two operands) twice as often
            let hoistable = [Comb::Map, Comb::AndThen, Comb::Filter, Comb::Inspect, Comb::Then, Comb::Chain, Comb::FindMap, Comb::FilterMap, Comb::Partition, Comb::Find, Comb::Zip, Comb::Or, Comb::OrElse, Comb::MapErr, Comb::Fold, Comb::TryFold, Comb::Fold, Comb::TryFold];
            (Some((hoistable[i % hoistable.len()], false, false)), 0)
        }
        Which::C02 => {
            let w = WRAPPERS[(i / 3) % 10];
            (Some((w, false, true)), i % 3)
        }
    };
    let mut branches = Vec::new();
    let mut nestings: Vec<(String, String, usize)> = Vec::new();
    let mut nest_pairs: Vec<(String, String)> = Vec::new();
    for b in 0..nb {
        let mut g = CG {
            rng,
            fam,
            next: 0,
            base: (b as u32) * 1000,
            caps: match which {
                Which::C11 => 0.6,
                Which::C10 => 0.45,
                // (a block handed in as a fragment is not a block operand: no captures here)
                Which::C14 => 0.0,
                _ if frag_c01 => 0.0,
                _ => 0.15,
            },
            lookalikes: which == Which::C14 || frag_c01,
            ck: if which == Which::C10 { 0.5 } else { 0.0 },
            ns: if which == Which::C19 { 0.6 } else { 0.0 },
            sn: match which {
                Which::C07 => 0.5,
                Which::C01 | Which::C02 => 0.05,
                _ => 0.0,
            },
            nest: if which == Which::C17 { 0.45 } else { 0.0 },
            nest_depth: 0,
            nest_log: vec![],
            nest_pairs: vec![],
            wrappers: match which {
                Which::C02 => 0.3,
                Which::C10 | Which::C11 => 0.25,
                // wrappers are C02's subject: C01's chains are flat, so that a defect in the wrapper
                // machinery is not reported against C01
                Which::C01 | Which::C14 => 0.0,
                _ => 0.12,
            },
            shapes: true,
            count_local: which == Which::C02 && nb == 1 && !kind.is_async && !kind.is_spawn,
            count_used: false,
            no_count: false,
            allow_deferred: !kind.is_try && (!kind.is_async || fam == Family::AsyncReal),
            // Soundness rule (DESIGN 7.3): a hoisted `Copy` capture used inside a non-move wrapper closure is
            // borrowed; the borrowing value (e.g. a lazy iterator) must not leave a thread / task
            spawn_async: kind.is_async || kind.is_spawn,
            depth: 0,
            force: if b == 0 { force } else { None },
            forced_done: false,
        };
        // in the async-closed family some wrappers do not exist for every type: fall back below
        let (mut init_ty, mut ops) = init_for(&mut g, if b == 0 { force.map(|f| f.0) } else { None }, which == Which::C02);
        let mut init_text = format!("inp::<{}>({})", init_ty.name(), b);
        if fam == Family::AsyncReal {
            // sources: a ready future of a value / Result, or a stream over a vector
            let fc = if b == 0 { force.map(|f| f.0) } else { None };
            let item = g.any_ty(1);
            let want_stream = matches!(fc, Some(Comb::Filter) | Some(Comb::Collect) | Some(Comb::Chain) | Some(Comb::FilterMap) | Some(Comb::Enumerate) | Some(Comb::Fold) | Some(Comb::TryFold) | Some(Comb::Zip) | Some(Comb::Unzip));
            let want_try = matches!(fc, Some(Comb::AndThen) | Some(Comb::OrElse) | Some(Comb::MapErr));
            let k = g.rng.random_range(0..3);
            ops.clear();
            if want_stream || (!want_try && k == 0) {
                let it = match fc {
                    Some(Comb::TryFold) => Ty::Res(Box::new(item)),
                    Some(Comb::Unzip) => Ty::Tup(Box::new(item), Box::new(g.any_ty(0))),
                    _ => item,
                };
                init_text = format!("sinp::<{}>({})", it.name(), b);
                init_ty = Ty::Stream(Box::new(it));
            } else if want_try || k == 1 {
                let r = Ty::Res(Box::new(item));
                init_text = format!("finp::<{}>({})", r.name(), b);
                init_ty = Ty::Fut(Box::new(r));
            } else {
                init_text = format!("finp::<{}>({})", item.name(), b);
                init_ty = Ty::Fut(Box::new(item));
            }
        }
        let mut locals: Vec<String> = Vec::new();
        let mut borrowed = false;
        if which == Which::C17 && !(b == 0 && force.is_some()) && rb(g.rng, 0.35) {
            // the initial value is itself a macro invocation
            let inner_from = g.any_ty(1);
            let k = 300 + b as u32;
            let inv = g.nested_invocation(&inner_from, &format!("inp::<{}>({})", inner_from.name(), k), &init_ty, "initial");
            init_text = inv;
        }
        if which == Which::C19 && rb(g.rng, 0.5) {
            // the branch borrows - shared or mutably - from a local of the calling function
            let it = Ty::Iter(Box::new(Ty::I64));
            if rb(g.rng, 0.5) {
                locals.push(format!("let __loc{b} = inp::<Vec<i64>>({k});", b = b, k = 100 + b));
                locals.push(format!("let __r{b} = &__loc{b};", b = b));
                init_text = format!("__r{}.iter()", b);
                let id = g.base + 800;
                ops = vec![COp { comb: Comb::Map, alt: false, deferred: false, operands: vec![format!("rd({})", id)], inner: None, closed: true, out: it.clone() }];
            } else {
                locals.push(format!("let mut __locm{b} = inp::<Vec<i64>>({k});", b = b, k = 200 + b));
                locals.push(format!("let __m{b} = &mut __locm{b};", b = b));
                init_text = format!("__m{}.iter_mut()", b);
                let id = g.base + 801;
                ops = vec![COp { comb: Comb::Map, alt: false, deferred: false, operands: vec![format!("inc_mut({})", id)], inner: None, closed: true, out: it.clone() }];
            }
            init_ty = Ty::Vec(Box::new(Ty::I64));
            borrowed = true;
        }
        // sometimes the initial value is an expression that binds weaker than a method call: the
        // documented chain applies the first combinator to the whole value
        if !(b == 0 && force.is_some()) && !borrowed && fam != Family::AsyncReal && rb(g.rng, if which == Which::C12 || which == Which::C14 || frag_c01 { 0.6 } else { 0.25 }) {
            let (t, text) = match g.rng.random_range(0..if which == Which::C14 || frag_c01 { 8 } else { 5 }) {
                // (C14 only: operator look-alikes at the top level of the value)
                5 | 6 => (Ty::Bool, format!("inp::<i64>({}) <= inp::<i64>({})", b, b + 50)),
                7 => (Ty::Bool, format!("(inp::<i64>({})..inp::<i64>({}) + 4).contains(&2) | inp::<bool>({})", b, b, b)),
                0 => (Ty::I64, format!("inp::<i64>({}) + inp::<i64>({})", b, b + 50)),
                1 => (Ty::I64, format!("-inp::<i64>({})", b)),
                2 => (Ty::Bool, format!("!inp::<bool>({})", b)),
                3 => (Ty::I64, format!("inp::<usize>({}) as i64", b)),
                _ => (Ty::Bool, format!("inp::<i64>({}) == 2", b)),
            };
            init_ty = t;
            init_text = text;
            ops.clear();
        }
        let start = ops.last().map(|o| o.out.clone()).unwrap_or_else(|| init_ty.clone());
        let len = g.rng.random_range(1..8usize);
        let goal = if kind.is_try {
            let inner = g.any_ty(1);
            Some(if try_res { Ty::Res(Box::new(inner)) } else { Ty::Opt(Box::new(inner)) })
        } else {
            None
        };
        let (more, mut fin) = g.walk(&start, len, None, false);
        ops.extend(more);
        if fam == Family::AsyncReal {
            // never end on a nested future or a stream: flatten / collect; try macros need a future of Result
            loop {
                match fin.clone() {
                    Ty::Fut(t) if matches!(*t, Ty::Fut(_)) => {
                        ops.push(COp { comb: Comb::Flatten, alt: false, deferred: false, operands: vec![], inner: None, closed: true, out: (*t).clone() });
                        fin = *t;
                    }
                    Ty::Stream(t) if matches!(*t, Ty::Stream(_)) => {
                        ops.push(COp { comb: Comb::Flatten, alt: false, deferred: false, operands: vec![], inner: None, closed: true, out: (*t).clone() });
                        fin = *t;
                    }
                    Ty::Stream(t) => {
                        let v = Ty::Vec(t.clone());
                        let o = Ty::Fut(Box::new(v.clone()));
                        ops.push(COp { comb: Comb::Collect, alt: false, deferred: false, operands: vec![v.name()], inner: None, closed: true, out: o.clone() });
                        fin = o;
                    }
                    _ => break,
                }
            }
            if kind.is_try {
                if let Ty::Fut(t) = fin.clone() {
                    if !matches!(*t, Ty::Res(_)) {
                        let y = Ty::Res(Box::new(g.any_ty(1)));
                        let id = g.base + 901;
                        let o = Ty::Fut(Box::new(y.clone()));
                        ops.push(COp { comb: Comb::Map, alt: false, deferred: false, operands: vec![format!("cbf::<{}, {}>({})", t.name(), y.name(), id)], inner: None, closed: true, out: o.clone() });
                        fin = o;
                    }
                }
            }
        }
        // never end on an iterator (not printable): collect
        if let Ty::Iter(t) = &fin {
            let out = Ty::Vec(t.clone());
            ops.push(COp { comb: Comb::Collect, alt: false, deferred: false, operands: vec![out.name()], inner: None, closed: true, out: out.clone() });
            fin = out;
        }
        if let (Some(gl), true) = (&goal, fam != Family::AsyncReal) {
            let same_family = matches!((&fin, gl), (Ty::Opt(_), Ty::Opt(_)) | (Ty::Res(_), Ty::Res(_)));
            if !same_family {
                let id = g.base + 900;
                ops.push(COp { comb: Comb::Then, alt: false, deferred: false, operands: vec![format!("cbf::<{}, {}>({})", fin.name(), gl.name(), id)], inner: None, closed: true, out: gl.clone() });
                fin = gl.clone();
            }
        }
        // `~` at random top-level positions (single chains evaluate the same with or without steps)
        if g.allow_deferred {
            for k in 0..ops.len() {
                if k > 0 && rb(g.rng, if which == Which::C03 { 0.5 } else { 0.2 }) {
                    // a step of an async macro ends in a future that is awaited; the next step continues
                    // from its output
                    let ok = fam != Family::AsyncReal || matches!(&ops[k - 1].out, Ty::Fut(t) if !matches!(**t, Ty::Fut(_)));
                    if ok {
                        ops[k].deferred = true;
                    }
                }
            }
        }
        // C06: `~` in the sync try macros, wherever the step then ends in the macro's Option / Result
        if which == Which::C06 {
            for k in 1..ops.len() {
                let w = if try_res { matches!(&ops[k - 1].out, Ty::Res(_)) } else { matches!(&ops[k - 1].out, Ty::Opt(_)) };
                // (always in front of the forced operator, so that every spelling is met behind a `~`)
                if w && (rb(g.rng, 0.6) || (b == 0 && Some(ops[k].comb) == force.map(|f| f.0))) {
                    ops[k].deferred = true;
                }
            }
        }
        // closing mode of wrappers: explicit, or implicit where a step / the branch ends
        let n = ops.len();
        for k in 0..n {
            if ops[k].inner.is_some() && ops[k].operands.is_empty() {
                let at_branch_end = k + 1 == n;
                let at_step_end = k + 1 < n && ops[k + 1].deferred;
                let is_forced = b == 0 && which == Which::C02 && Some(ops[k].comb) == force.map(|f| f.0);
                if is_forced {
                    match close_mode {
                        1 if g.allow_deferred && k + 1 < n && (fam != Family::AsyncReal || matches!(&ops[k].out, Ty::Fut(t) if !matches!(**t, Ty::Fut(_)))) => {
                            ops[k + 1].deferred = true;
                            ops[k].closed = false;
                        }
                        2 if at_branch_end => ops[k].closed = false,
                        _ => {}
                    }
                } else if (at_branch_end || at_step_end) && rb(g.rng, 0.5) {
                    ops[k].closed = false;
                }
            }
        }
        // async-closed family: the branch must end in a future
        if kind.is_async && fam != Family::AsyncReal {
            ops.push(COp { comb: Comb::Then, alt: false, deferred: false, operands: vec!["ready".into()], inner: None, closed: true, out: fin.clone() });
            // an implicitly closed wrapper can no longer be last
            let n2 = ops.len();
            if n2 >= 2 {
                ops[n2 - 2].closed = true;
            }
        }
        nestings.extend(g.nest_log.iter().cloned());
        nest_pairs.extend(g.nest_pairs.iter().cloned());
        // (C12: every fifth name is a raw identifier)
        let raw = which == Which::C12 && rb(g.rng, 0.2);
        let let_name = if rb(g.rng, if which == Which::C12 || shadow { 0.85 } else { 0.25 }) { Some((format!("{}nm{}", if raw { "r#" } else { "" }, b), rb(g.rng, 0.3))) } else { None };
        // a fifth of the initial values are spelled as a plain local variable of the calling function
        // (the value is moved into the macro, never copied or cloned)
        if which != Which::C14 && !frag_c01 && !borrowed && rb(g.rng, 0.2) {
            locals.push(format!("let __iv{} = {};", b, init_text));
            init_text = format!("__iv{}", b);
        }
        branches.push(ChainBranch { locals, let_name, init_ty: init_ty.clone(), init_text: init_text.clone(), ops, fin });
    }
    // C17: a handler whose body is a nested macro invocation over the results
    let mut handler: Option<(String, String)> = None;
    let mut branches = branches;
    if shadow {
        let arg_tys: Vec<Ty> = branches
            .iter()
            .map(|b| match (&b.fin, kind.is_try) {
                (Ty::Opt(t), true) | (Ty::Res(t), true) => (**t).clone(),
                (t, _) => t.clone(),
            })
            .collect();
        let named: Vec<String> = branches.iter().filter_map(|b| b.let_name.as_ref().map(|n| n.0.clone())).collect();
        let all_plain = arg_tys.iter().all(|t| !matches!(t, Ty::Iter(_) | Ty::Ref(_) | Ty::Fut(_) | Ty::Stream(_)));
        if all_plain && !named.is_empty() {
            let try_res = branches.first().map(|b| matches!(b.fin, Ty::Res(_))).unwrap_or(false);
            let hk = if !kind.is_try {
                "then"
            } else if rb(rng, 0.5) {
                "map"
            } else {
                "and_then"
            };
            let params: Vec<String> = arg_tys.iter().enumerate().map(|(i, t)| format!("a{}: {}", i, t.name())).collect();
            let args: Vec<String> = (0..arg_tys.len()).map(|i| format!("a{}", i)).collect();
            let tuple = format!("(({},), {})", named.join(", "), args.join(", "));
            let val = match hk {
                "and_then" if try_res => format!("Ok::<_, i64>({})", tuple),
                "and_then" => format!("Some({})", tuple),
                _ => tuple,
            };
            let body = if kind.is_async && hk != "map" { format!("ready({})", val) } else { val };
            handler = Some((hk.to_string(), format!("|{}| {}", params.join(", "), body)));
            for (k, n) in named.iter().enumerate() {
                branches[0].locals.push(format!("let {} = inp::<i64>({});", n, 60 + k));
            }
        }
    } else if which == Which::C17 && rb(rng, 0.4) {
        // unwrapped value types the handler receives
        let arg_tys: Vec<Ty> = branches
            .iter()
            .map(|b| match (&b.fin, kind.is_try) {
                (Ty::Opt(t), true) | (Ty::Res(t), true) => (**t).clone(),
                (t, _) => t.clone(),
            })
            .collect();
        let all_plain = arg_tys.iter().all(|t| !matches!(t, Ty::Iter(_) | Ty::Ref(_) | Ty::Fut(_) | Ty::Stream(_)));
        if all_plain {
            // fold the arguments into nested pairs
            let mut tup_ty = arg_tys[0].clone();
            let mut tup_text = "a0".to_string();
            for (i, t) in arg_tys.iter().enumerate().skip(1) {
                tup_ty = Ty::Tup(Box::new(tup_ty), Box::new(t.clone()));
                tup_text = format!("({}, a{})", tup_text, i);
            }
            let mut g = CG { rng, fam: Family::Sync, next: 0, base: 90_000, caps: 0.15, wrappers: 0.1, shapes: true, lookalikes: false, count_local: false, count_used: false, no_count: false, allow_deferred: false, spawn_async: true, depth: 0, force: None, forced_done: false, ck: 0.0, ns: 0.0, sn: 0.0, nest: 0.3, nest_depth: 0, nest_log: vec![], nest_pairs: vec![] };
            let try_res = branches.first().map(|b| matches!(b.fin, Ty::Res(_))).unwrap_or(false);
            let (hkind, out_ty): (&str, Ty) = if !kind.is_try {
                ("then", g.any_ty(1))
            } else if rb(g.rng, 0.5) {
                ("map", g.any_ty(1))
            } else {
                let inner = g.any_ty(1);
                ("and_then", if try_res { Ty::Res(Box::new(inner)) } else { Ty::Opt(Box::new(inner)) })
            };
            let inv = g.nested_invocation(&tup_ty, &tup_text, &out_ty, "handler");
            nestings.extend(g.nest_log.iter().cloned());
            nest_pairs.extend(g.nest_pairs.iter().cloned());
            let params: Vec<String> = arg_tys.iter().enumerate().map(|(i, t)| format!("a{}: {}", i, t.name())).collect();
            // async then / and_then handlers return a future that the macro awaits
            let body = if kind.is_async && hkind != "map" { format!("ready({})", inv) } else { inv };
            handler = Some((hkind.to_string(), format!("|{}| {{ {} }}", params.join(", "), body)));
        }
    }
    // C19: a handler that borrows a local of the calling function (async then / and_then: the future it
    // returns holds the borrow) - no 'static requirement on handlers of the non-spawning macros either
    if which == Which::C19 && rb(rng, 0.45) {
        let arg_tys: Vec<Ty> = branches
            .iter()
            .map(|b| match (&b.fin, kind.is_try) {
                (Ty::Opt(t), true) | (Ty::Res(t), true) => (**t).clone(),
                (t, _) => t.clone(),
            })
            .collect();
        let all_plain = arg_tys.iter().all(|t| !matches!(t, Ty::Iter(_) | Ty::Ref(_) | Ty::Fut(_) | Ty::Stream(_)));
        if all_plain && arg_tys.len() <= 10 {
            let try_res = branches.first().map(|b| matches!(b.fin, Ty::Res(_))).unwrap_or(false);
            let hk = if !kind.is_try {
                "then"
            } else if rb(rng, 0.4) {
                "map"
            } else {
                "and_then"
            };
            let params: Vec<String> = arg_tys.iter().enumerate().map(|(i, t)| format!("a{}: {}", i, t.name())).collect();
            let args: Vec<String> = (0..arg_tys.len()).map(|i| format!("a{}", i)).collect();
            let tuple = format!("(__hr.len() as i64, {})", args.join(", "));
            let val = match hk {
                "and_then" if try_res => format!("Ok::<_, i64>({})", tuple),
                "and_then" => format!("Some({})", tuple),
                _ => tuple,
            };
            let body = if kind.is_async && hk != "map" { format!("async move {{ {} }}", val) } else { val };
            if rb(rng, 0.35) {
                // a handler that is only `FnOnce`: it gives away a value it owns (handlers are called once)
                let body1 = body.replace("__hr.len()", "__own.len()");
                handler = Some((hk.to_string(), format!("{{ let __hv = inp::<Vec<i64>>(77); move |{}| {{ let __own = __hv; {} }} }}", params.join(", "), body1)));
            } else {
                handler = Some((hk.to_string(), format!("{{ let __hr = &__hl; move |{}| {} }}", params.join(", "), body)));
                branches[0].locals.push("let __hl = inp::<Vec<i64>>(77);".to_string());
            }
        }
    }
    // C19: the non-spawning async macros with a (pass-through) custom joiner must not add a Send bound either
    // ... nor may `lazy_branches(true)` with a joiner that calls the branch closures in the sequential macros
    let options = if which == Which::C19 && kind.is_async && branches.len() >= 2 && rb(rng, 0.4) {
        format!("custom_joiner(jvrt::{}!) ", if kind.is_try { "jv_ptry" } else { "jv_pjoin" })
    } else if which == Which::C19 && !kind.is_async && !kind.is_spawn && branches.len() >= 2 && !branches.iter().any(|b| b.init_text.contains("iter_mut") || cap_in_wrapper(&b.ops, false)) && rb(rng, 0.4) {
        // (nor can a lazy value that borrows a hoisted block capture - a wrapper closure is not `move` - leave
        // the `move ||` a lazy branch is: the rule of section 7.3, as for the spawning macros)
        // (a branch that hands out a reborrow of a `&mut` local cannot be a closure in plain Rust either:
        // `move || m.iter_mut()` does not compile - such programs keep eager branches)
        if rb(rng, 0.5) { "lazy_branches(true) custom_joiner(jvrt::jv_plazy!) ".to_string() } else { "custom_joiner(jvrt::jv_plazy!) lazy_branches(true) ".to_string() }
    } else {
        String::new()
    };
    // C12: a third of the invocations come out of a `macro_rules!` wrapper that is given the names
    let mr_wrap = which == Which::C12 && rb(rng, 0.35);
    ChainProg { fam, mac: mac.to_string(), branches, nestings, handler, options, nest_pairs, mr_wrap, frag: if which == Which::C14 || frag_c01 { 1 } else { 0 } }
}

fn strategy(i: usize, which: Which) -> impl Strategy<Value = ChainProg> {
    Just(()).prop_perturb(move |_, mut rng| gen_prog(&mut rng, i, which))
}

// ------------------------------------------------------------------------------ rendering

fn count_ops(ops: &[COp]) -> usize {
    ops.iter().map(|o| 1 + o.inner.as_ref().map(|i| count_ops(i)).unwrap_or(0)).sum()
}

/// hoists block-capture operands of the reference side (documented: "these blocks will be placed
/// before actual step expressions"), returning the definitions
fn hoist_ref(ops: &mut Vec<COp>, defs: &mut Vec<String>, counter: &mut usize) {
    for op in ops.iter_mut() {
        for o in op.operands.iter_mut() {
            if o.starts_with("{ cap(") {
                *counter += 1;
                let name = format!("__c{}", counter);
                defs.push(format!("let {} = {};", name, o));
                *o = name;
            }
        }
        if let Some(inner) = &mut op.inner {
            hoist_ref(inner, defs, counter);
        }
    }
}

/// the macro side of a program as `fn case_<idx>_<suffix>() -> String`
fn mac_fn(p: &ChainProg, idx: usize, suffix: &str) -> String {
    let kind = macro_kind(&p.mac);
    let wrap = (p.mr_wrap && p.branches.iter().any(|b| b.let_name.is_some())) || p.frag == 1;
    let mut passed: Vec<String> = Vec::new();
    let mut params: Vec<String> = Vec::new();
    let mut nfrag = 0usize;
    let mut body: Vec<String> = p
        .branches
        .iter()
        .enumerate()
        .map(|(bi, b)| {
            let mut q = b.clone();
            if let (Some((n, m)), true) = (&b.let_name, wrap) {
                q.let_name = Some((format!("$p{}", bi), *m));
                params.push(format!("$p{}:ident", bi));
                passed.push(n.clone());
            }
            if p.frag != 0 {
                // initial value and expression operands: as fragments, or parenthesised
                let mut texts: Vec<&mut String> = vec![&mut q.init_text];
                for op in q.ops.iter_mut() {
                    if matches!(op.comb, Comb::Collect | Comb::Unzip | Comb::Dot) || op.inner.is_some() {
                        continue;
                    }
                    for o in op.operands.iter_mut() {
                        if !o.starts_with('@') {
                            texts.push(o);
                        }
                    }
                }
                for t in texts {
                    if p.frag == 1 {
                        params.push(format!("$e{}:expr", nfrag));
                        passed.push(t.clone());
                        *t = format!("$e{}", nfrag);
                        nfrag += 1;
                    } else {
                        *t = format!("({})", t);
                    }
                }
            }
            render_branch_macro(&q)
        })
        .collect();
    if let Some((k, text)) = &p.handler {
        body.push(format!("{} => {}", k, text));
    }
    let mut mac = String::new();
    mac.push_str(&format!("#[allow(unused, non_snake_case)]\nfn case_{}_{}() -> String {{\n    use jvrt::chainrt::*;\n", idx, suffix));
    for b in &p.branches {
        for l in &b.locals {
            mac.push_str(&format!("    {}\n", l));
        }
    }
    let invocation = format!("::join::{}! {{\n            {}{}\n        }}", p.mac, p.options, body.join(",\n            "));
    let invocation = if wrap {
        mac.push_str(&format!("    macro_rules! __jw {{ ({}) => {{ {} }} }}\n", params.join(", "), invocation));
        format!("__jw!({})", passed.join(", "))
    } else {
        invocation
    };
    let invocation = if kind.is_async && kind.is_spawn && WHICH.with(|w| w.get()) == Which::C07 { format!("require_send({})", invocation) } else { invocation };
    if kind.is_async {
        mac.push_str(&format!("    block_on(async {{\n        let __r = {}.await;\n        format!(\"{{:?}}\", __r)\n    }})\n}}\n", invocation));
    } else {
        if invocation.contains("__cnt += 1") {
            mac.push_str(&format!("    let mut __cnt: i64 = 0;\n    let __r = {};\n    format!(\"{{:?}}\", (__r, __cnt))\n}}\n", invocation));
        } else {
            mac.push_str(&format!("    let __r = {};\n    format!(\"{{:?}}\", __r)\n}}\n", invocation));
        }
    }
    mac
}

thread_local! {
    /// which check the programs are rendered for (controls depend on it)
    pub static WHICH: std::cell::Cell<Which> = const { std::cell::Cell::new(Which::C01) };
}

/// replaces whole-word occurrences of `from`
fn replace_word(text: &str, from: &str, to: &str) -> String {
    let mut out = String::new();
    let b: Vec<char> = text.chars().collect();
    let f: Vec<char> = from.chars().collect();
    let mut i = 0;
    while i < b.len() {
        let m = i + f.len() <= b.len() && b[i..i + f.len()] == f[..];
        let before_ok = i == 0 || !(b[i - 1].is_alphanumeric() || b[i - 1] == '_');
        let after_ok = i + f.len() >= b.len() || !(b[i + f.len()].is_alphanumeric() || b[i + f.len()] == '_');
        if m && before_ok && after_ok {
            out.push_str(to);
            i += f.len();
        } else {
            out.push(b[i]);
            i += 1;
        }
    }
    out
}

/// `{ cap(ID); X }` -> `X`
fn unwrap_captures(text: &str) -> String {
    let mut s = text.to_string();
    loop {
        let Some(start) = s.find("{ cap(") else { return s };
        // matching brace
        let bytes: Vec<char> = s[start..].chars().collect();
        let mut depth = 0i32;
        let mut end = None;
        for (k, c) in bytes.iter().enumerate() {
            match c {
                '{' => depth += 1,
                '}' => {
                    depth -= 1;
                    if depth == 0 {
                        end = Some(k);
                        break;
                    }
                }
                _ => {}
            }
        }
        let Some(end) = end else { return s };
        let inner: String = bytes[..=end].iter().collect();
        let after_semi = match inner.find("); ") {
            Some(p) => inner[p + 3..inner.len() - 1].trim().to_string(),
            None => return s,
        };
        let byte_end = start + inner.len();
        s = format!("{}{}{}", &s[..start], after_semi, &s[byte_end..]);
    }
}

/// The control of a program: the same program through the macro *without* the feature the property is
/// about. A difference between macro side and documented chain counts for the property only when the
/// control agrees with the documented chain (otherwise the defect lies elsewhere).
fn control_text(p: &ChainProg, idx: usize) -> Option<String> {
    match WHICH.with(|w| w.get()) {
        // C12: no `let` names
        Which::C12 => {
            let mut q = p.clone();
            for b in q.branches.iter_mut() {
                b.let_name = None;
            }
            Some(mac_fn(&q, idx, "ctl"))
        }
        // C07: the plain macro of the class
        Which::C07 => {
            let mut q = p.clone();
            q.mac = match p.mac.as_str() {
                "join_spawn" | "spawn" => "join",
                "try_join_spawn" | "try_spawn" => "try_join",
                "join_async_spawn" | "async_spawn" => "join_async",
                _ => "try_join_async",
            }
            .to_string();
            Some(mac_fn(&q, idx, "ctl"))
        }
        // C19: Send + Sync twins of the values, owned copies instead of borrows of the caller's locals,
        // no custom joiner
        Which::C19 => {
            let mut q = p.clone();
            q.options = String::new();
            let mut t = replace_word(&mac_fn(&q, idx, "ctl"), "Ns", "Sy");
            t = t.replace("let __hr = &__hl;", "let __hr = __hl.clone();");
            // (a handler that is only FnOnce: its control clones the value it owns, which makes it `Fn`)
            t = t.replace("let __own = __hv;", "let __own = __hv.clone();");
            for b in 0..q.branches.len() {
                t = t.replace(&format!("__r{}.iter() |> rd(", b), &format!("__loc{}.clone().into_iter() |> rdo(", b));
                t = t.replace(&format!("__m{}.iter_mut() |> inc_mut(", b), &format!("__locm{}.clone().into_iter() |> inco(", b));
            }
            Some(t)
        }
        // C17: nested invocations written as plain chains
        Which::C17 => {
            // (a program without any nesting is its own control: it says nothing about nesting);
            // the `let` names get spellings that occur nowhere else
            let mut q = p.clone();
            for (b, br) in q.branches.iter_mut().enumerate() {
                if let Some(n) = br.let_name.as_mut() {
                    n.0 = format!("zz{}", b);
                }
            }
            let mut t = mac_fn(&q, idx, "ctl");
            for _ in 0..4 {
                for (m, plain) in p.nest_pairs.iter().rev() {
                    if t.contains(m.as_str()) {
                        t = t.replace(m.as_str(), plain);
                    }
                }
            }
            Some(t)
        }
        // C14: the same texts parenthesised in a direct invocation
        Which::C14 => {
            let mut q = p.clone();
            q.frag = 2;
            Some(mac_fn(&q, idx, "ctl"))
        }
        // C11: captures unwrapped
        Which::C11 => {
            let t = mac_fn(p, idx, "ctl");
            let u = unwrap_captures(&t);
            if u == t {
                None
            } else {
                Some(u)
            }
        }
        _ => None,
    }
}

pub struct CaseCode {
    pub code: String,
    pub ctl_from: Option<usize>,
    pub ref_from: usize,
    pub n_ops: usize,
    pub concurrent: bool,
}

/// a block capture somewhere inside a wrapper body
fn cap_in_wrapper(ops: &[COp], inside: bool) -> bool {
    ops.iter().any(|o| (inside && o.operands.iter().any(|t| t.contains("cap("))) || o.inner.as_ref().map(|i| cap_in_wrapper(i, true)).unwrap_or(false))
}

fn all_steps_has_deferred(p: &ChainProg) -> bool {
    p.branches.iter().any(|b| b.ops.iter().any(|o| o.deferred))
}

pub fn case_code(p: &ChainProg, idx: usize) -> CaseCode {
    let kind = macro_kind(&p.mac);
    let fam = p.fam;
    let n = p.branches.len();
    let mut mac = mac_fn(p, idx, "mac");
    let ctl_from = mac.matches('\n').count();
    let ctl = control_text(p, idx);
    if let Some(c) = &ctl {
        mac.push_str(c);
    }
    let ref_from = mac.matches('\n').count();
    // ---- reference side: per branch, step by step; the block captures of a step are evaluated
    // before the step's expression (README "Block captures"), in written order
    let concurrent = n >= 2;
    let mut counter = 0usize;
    let mut inner = String::new();
    let which_now = WHICH.with(|w| w.get());
    // C06: steps of the sync try macros - after every step the first failing active branch ends the evaluation
    let try_steps = which_now == Which::C06 && kind.is_try && !kind.is_async && all_steps_has_deferred(p);
    let step_major = which_now == Which::C03 || try_steps;
    let try_res = p.branches.first().map(|b| matches!(b.fin, Ty::Res(_))).unwrap_or(true);
    // split the top-level operators of every branch at `~`
    let all_steps: Vec<Vec<Vec<COp>>> = p
        .branches
        .iter()
        .map(|b| {
            let mut steps: Vec<Vec<COp>> = vec![Vec::new()];
            for op in &b.ops {
                if op.deferred {
                    steps.push(Vec::new());
                }
                steps.last_mut().unwrap().push(op.clone());
            }
            steps
        })
        .collect();
    let mut prevs: Vec<String> = p.branches.iter().map(|b| format!("({})", b.init_text)).collect();
    let max_steps = all_steps.iter().map(|s| s.len()).max().unwrap_or(1);
    // order of evaluation of the reference: branch by branch (traces are compared per branch), or - for the
    // step stage of C03 - step by step across the branches with a mark in front of every step
    let mut order: Vec<(usize, usize)> = Vec::new();
    if step_major {
        for j in 0..max_steps {
            for i in 0..n {
                if j < all_steps[i].len() {
                    order.push((i, j));
                }
            }
        }
    } else {
        for i in 0..n {
            for j in 0..all_steps[i].len() {
                order.push((i, j));
            }
        }
    }
    let mut marked: Option<usize> = None;
    for (i, j) in order {
        if step_major && marked != Some(j) {
            if try_steps {
                if let Some(jp) = marked {
                    // end of step jp: the lowest-numbered active branch that failed is the macro's value
                    for b in 0..n {
                        if jp < all_steps[b].len() {
                            let name = if jp + 1 == all_steps[b].len() { format!("__b{}", b) } else { format!("__b{}_{}", b, jp) };
                            if try_res {
                                inner.push_str(&format!("    if {n}.is_err() {{ break 'eval Err({n}.err().unwrap()); }}\n", n = name));
                            } else {
                                inner.push_str(&format!("    if {n}.is_none() {{ break 'eval None; }}\n", n = name));
                            }
                        }
                    }
                }
            } else {
                inner.push_str(&format!("    smark({});\n", j));
            }
            marked = Some(j);
        }
        let mut ops = all_steps[i][j].clone();
        let last = all_steps[i].len() - 1;
        let mut defs = Vec::new();
        hoist_ref(&mut ops, &mut defs, &mut counter);
        for d in &defs {
            inner.push_str(&format!("    {}\n", d));
        }
        let mut e = prevs[i].clone();
        for op in &ops {
            e = ref_apply_pub(e, op, fam);
        }
        let name = if j == last { format!("__b{}", i) } else { format!("__b{}_{}", i, j) };
        if kind.is_async {
            // the same requirement the task-spawning macros document
            if kind.is_spawn && n >= 2 {
                inner.push_str(&format!("    let {} = require_task({}).await;\n", name, e));
            } else {
                inner.push_str(&format!("    let {} = {}.await;\n", name, e));
            }
        } else if kind.is_spawn && n >= 2 {
            inner.push_str(&format!("    let {} = require_thread(move || {});\n", name, e));
        } else {
            inner.push_str(&format!("    let {} = {};\n", name, e));
        }
        // the next step continues from this value (moved: iterator adaptors take `&mut self`);
        // in an async macro from a ready future of it
        prevs[i] = if fam == Family::AsyncReal { format!("ready({{ {} }})", name) } else { format!("{{ {} }}", name) };
    }
    let mut r = String::new();
    r.push_str(&format!("#[allow(unused, non_snake_case)]\nfn case_{}_ref() -> String {{\n    use jvrt::chainrt::*;\n", idx));
    for b in &p.branches {
        for l in &b.locals {
            r.push_str(&format!("    {}\n", l));
        }
    }
    let names: Vec<String> = (0..n).map(|i| format!("__b{}", i)).collect();
    let result = if !kind.is_try {
        if n == 1 {
            names[0].clone()
        } else {
            format!("({})", names.join(", "))
        }
    } else if n == 1 {
        names[0].clone()
    } else {
        // transposition as the README's try_join! describes it: tuple of results into result of tuple
        let mut acc = format!("{}.map(|{}| ({}))", names[n - 1], names[n - 1], names.join(", "));
        for i in (0..n - 1).rev() {
            acc = format!("{}.and_then(|{}| {})", names[i], names[i], acc);
        }
        acc
    };
    let result = match &p.handler {
        None => result,
        Some((k, text)) => {
            let args = names.join(", ");
            let tuple_pat = if n == 1 { names[0].clone() } else { format!("({})", names.join(", ")) };
            let aw = if kind.is_async { ".await" } else { "" };
            match k.as_str() {
                // README: `then` acts as handler(result0, result1, ..)
                "then" => format!("({})({}){}", text, args, aw),
                // `map`: results.map(|(r0, r1, ..)| handler(r0, r1, ..))
                "map" => format!("({}).map(|{}| ({})({}))", result, tuple_pat, text, args),
                // `and_then`: results.and_then(|(r0, r1, ..)| handler(r0, r1, ..)); async: the handler's future is awaited
                _ => {
                    if kind.is_async {
                        format!("match {} {{ Ok({}) => ({})({}).await, Err(e) => Err(e) }}", result, tuple_pat, text, args)
                    } else {
                        format!("({}).and_then(|{}| ({})({}))", result, tuple_pat, text, args)
                    }
                }
            }
        }
    };
    if inner.contains("__cnt += 1") || result.contains("__cnt += 1") {
        inner = format!("    let mut __cnt: i64 = 0;\n{}", inner);
        inner.push_str(&format!("    let __r = {};\n    format!(\"{{:?}}\", (__r, __cnt))\n", result));
    } else if try_steps {
        inner = format!("    let __r = 'eval: {{\n{}    {}\n    }};\n    format!(\"{{:?}}\", __r)\n", inner, result);
    } else {
        inner.push_str(&format!("    let __r = {};\n    format!(\"{{:?}}\", __r)\n", result));
    }
    if kind.is_async {
        r.push_str(&format!("    block_on(async {{\n{}    }})\n}}\n", inner));
    } else {
        r.push_str(&inner);
        r.push_str("}\n");
    }
    let n_ops: usize = p.branches.iter().map(|b| count_ops(&b.ops)).sum();
    CaseCode { code: format!("{}{}", mac, r), ctl_from: ctl.as_ref().map(|_| ctl_from), ref_from, n_ops, concurrent }
}

pub const HEADER: &str = "#![allow(unused_imports, unused_variables, unused_mut, unused_parens, unused_braces, dead_code)]\n#![recursion_limit = \"1024\"]\nuse futures::future::ready;\nuse futures::{FutureExt, StreamExt, TryFutureExt, TryStreamExt};\nuse jvrt::chainrt::ChainCase;\n\n";

fn case_src(p: &ChainProg, idx: usize) -> CaseSrc {
    let cc = case_code(p, idx);
    let kind = macro_kind(&p.mac);
    let short_circuit = kind.is_async && kind.is_try && p.branches.len() >= 2;
    let ctl = if cc.ctl_from.is_some() { format!("Some(case_{}_ctl)", idx) } else { "None".to_string() };
    CaseSrc {
        idx,
        code: cc.code,
        table: format!("        ChainCase {{ idx: {}, mac: case_{}_mac, refn: case_{}_ref, n_ops: {}, concurrent: {}, short_circuit: {}, ctl: {} }},\n", idx, idx, idx, cc.n_ops, cc.concurrent, short_circuit, ctl),
        ref_from: Some(cc.ref_from),
        ctl_from: cc.ctl_from,
    }
}

fn main_text(cs: &[&CaseSrc]) -> String {
    let mut s = String::from("fn main() {\n    let cases = vec![\n");
    for c in cs {
        s.push_str(&c.table);
    }
    s.push_str("    ];\n    jvrt::chainrt::main(&cases);\n}\n");
    s
}

fn tally(ops: &[COp], prev: &mut Option<&'static str>, classes: &mut BTreeMap<String, u64>, depth: usize) {
    for op in ops {
        let t = token(op.comb, op.alt);
        *classes.entry(format!("op {}", t)).or_default() += 1;
        if let Some(p) = prev {
            *classes.entry(format!("pair {} {}", p, t)).or_default() += 1;
        }
        *prev = Some(t);
        if op.deferred {
            *classes.entry("flag ~".into()).or_default() += 1;
        }
        if let Some(inner) = &op.inner {
            let mode = if op.closed { "explicit" } else { "implicit" };
            *classes.entry(format!("wrapper {} depth{} {}", t, (depth + 1).min(3), mode)).or_default() += 1;
            if inner.is_empty() {
                *classes.entry("wrapper empty body".into()).or_default() += 1;
            }
            let mut p2 = None;
            tally(inner, &mut p2, classes, depth + 1);
        }
    }
}

fn shrink_candidates(p: &ChainProg) -> Vec<ChainProg> {
    let kind = macro_kind(&p.mac);
    let mut out = Vec::new();
    if p.branches.len() > 1 {
        for j in 0..p.branches.len() {
            let mut q = p.clone();
            q.branches.remove(j);
            out.push(q);
        }
    }
    // prefixes of a branch are well typed; re-close them
    for j in 0..p.branches.len() {
        let n = p.branches[j].ops.len();
        for cut in (0..n).rev() {
            let mut q = p.clone();
            let b = &mut q.branches[j];
            b.ops.truncate(cut);
            let mut fin = b.ops.last().map(|o| o.out.clone()).unwrap_or_else(|| b.init_ty.clone());
            if let Some(l) = b.ops.last_mut() {
                if !l.operands.is_empty() {
                    l.closed = true;
                }
            }
            if let Ty::Iter(t) = &fin {
                let v = Ty::Vec(t.clone());
                b.ops.push(COp { comb: Comb::Collect, alt: false, deferred: false, operands: vec![v.name()], inner: None, closed: true, out: v.clone() });
                fin = v;
            }
            if kind.is_try && !matches!(fin, Ty::Opt(_) | Ty::Res(_)) {
                continue;
            }
            if kind.is_try && p.branches.len() > 1 {
                // all branches must stay in one family
                let fam_ok = match (&fin, &p.branches[(j + 1) % p.branches.len()].fin) {
                    (Ty::Opt(_), Ty::Opt(_)) | (Ty::Res(_), Ty::Res(_)) => true,
                    _ => false,
                };
                if !fam_ok {
                    continue;
                }
            }
            if kind.is_async {
                if kind.is_try && !matches!(fin, Ty::Res(_)) {
                    continue;
                }
                b.ops.push(COp { comb: Comb::Then, alt: false, deferred: false, operands: vec!["ready".into()], inner: None, closed: true, out: fin.clone() });
            }
            b.fin = fin;
            out.push(q);
        }
    }
    out
}

fn first_bad(res: &batch::BatchResult) -> Option<(usize, Value, bool)> {
    if let Some((k, v)) = res.compile_fail.iter().next() {
        return Some((*k, json!({"compile_errors": v}), true));
    }
    let mut best: Option<(usize, Value)> = None;
    for r in &res.reports {
        if r["violations"].as_array().map(|a| !a.is_empty()).unwrap_or(false) {
            let idx = r["case"].as_u64().unwrap() as usize;
            if best.as_ref().map(|b| idx < b.0).unwrap_or(true) {
                best = Some((idx, r["violations"][0].clone()));
            }
        }
    }
    best.map(|(i, v)| (i, v, false))
}

fn run_batch(pkg: &str, progs: &[ChainProg], seed: u64, inputs: usize, mode: &str) -> batch::BatchResult {
    let cases: Vec<CaseSrc> = progs.iter().enumerate().map(|(i, p)| case_src(p, i)).collect();
    let env = vec![("JV_SEED".to_string(), seed.to_string()), ("JV_BUDGET".to_string(), inputs.to_string()), ("JV_MODE".to_string(), mode.to_string())];
    batch::build_and_run_src(pkg, HEADER, &cases, &main_text, &env, &[], "", 600, 16)
}

pub fn run(id: &str, tier: &str, seed: u64) -> i32 {
    let t0 = Instant::now();
    let which = match id {
        "C02" => Which::C02,
        "C10" => Which::C10,
        "C11" => Which::C11,
        "C19" => Which::C19,
        "C17" => Which::C17,
        "C12" => Which::C12,
        "C07" => Which::C07,
        "C14" => Which::C14,
        "C03" => Which::C03,
        "C06" => Which::C06,
        _ => Which::C01,
    };
    WHICH.with(|w| w.set(which));
    let (count, inputs) = match (which, tier) {
        (Which::C01, "quick") => (2640, 48),
        (Which::C01, _) => (26400, 128),
        (Which::C02, "quick") => (1920, 48),
        (Which::C02, _) => (19200, 128),
        (_, "quick") => (1056, 24),
        (_, _) => (10560, 64),
    };
    let mut ev = Evidence { property: id.to_string(), tier: tier.to_string(), seed, level: "exploration".into(), ..Default::default() };
    ev.rule = match which {
        Which::C01 => "programs: typed chains (random walk over i64 / usize / bool / () / Option / Result<_, i64> / Vec / tuples / iterators, nesting <= 3), 1-3 independent chains per invocation, length 1-8 plus closing; program i is forced to contain operator spelling i mod 22 and uses macro name i mod 12 (async macros: half sync chains closed with `-> ready`, half chains over real futures and streams - FutureExt / TryFutureExt / StreamExt / TryStreamExt methods incl. `^^>` of futures of futures and streams of streams, `->` receiving the future itself, `~` where a step ends in a future; `??` meaning `.inspect`); operands fully typed, in varied shapes (call returning a closure, typed closure, closure with return type, parenthesised, macro call, block capture, constructor whose evaluation is itself an event); in every fifth round of the 22 spellings the initial values and expression operands reach the macro as `expr` fragments of a `macro_rules!` wrapper; `~` at random positions in the non-try sync macros; inputs: 8 boundary seeds + proptest-free hash-derived seeds building the initial values (None / Err / empty and non-empty vectors included). Oracle: differential against the documented method chain with the same operand text compiled in the same binary - Debug of the result, ordered trace of callback invocations and operand evaluations (per branch when branches run on threads), multiset of all events; the macro side not compiling while the reference side does is a violation, the reverse is a generator bug (exit 2). Non-trivial = >= 2 operators and >= 1 callback invoked on that input",
        Which::C14 => "fragment stage: flat typed chains under all 12 macro names (operator spelling i mod 22 forced) in which every initial value and every expression operand reaches the macro as an `expr` fragment of a `macro_rules!` wrapper around the invocation - one token tree whatever it contains; 60 % of the initial values bind weaker than a method call, a third of them with an operator look-alike at their top level (`a <= b`, `(a..b).contains(&2) | c`), and bool-returning callbacks are closures whose body is `x <= f(v)`; oracle: the documented method chain over the same texts (result, ordered trace, event multiset); control: the same texts parenthesised in a direct invocation. Non-trivial = >= 2 operators and >= 1 callback invoked",
        Which::C10 => "chain stage: typed chains as in C01 (all 22 operator spellings forced in turn, all 12 macro names) with block captures on 35 % of the operands and the clone- and drop-counting value type `Ck` in half of the scalar positions (fold / try_fold initial values, iterator items, Option / Result payloads); oracle against the documented chain compiled in the same binary: equal multiset of evaluation events (every operand expression and capture once, every callback as often as the std method calls it - per element for iterator callbacks), equal number of clones of counted values, no counted value alive after the result is dropped. Non-trivial = >= 2 callbacks invoked and >= 1 capture",
        Which::C07 => "bounds stage: typed chains with 2-4 branches under the eight thread- and task-spawning macro names whose values include `Sn` (holds a Cell: Send but not Sync) in half of the scalar positions; the reference side passes every branch through `require_thread(move || ..)` / `require_task(..)` (FnOnce / Future + Send + 'static - exactly what the README documents for spawning); oracle: the macro side compiles whenever the reference does, and both give the same result and per-branch callback traces. Non-trivial = >= 2 operators and >= 1 callback invoked",
        Which::C12 => "chain stage: typed chains under all 12 macro names in which 85 % of the branches carry `let name =` / `let mut name =` on the macro side only, 60 % of them with an initial value that binds weaker than a method call (`a + b`, `-x`, `!b`, `x as T`, `a == 2`); every fifth name is a raw identifier, and a third of the invocations are produced by a `macro_rules!` wrapper that receives the names as `ident` metavariables (the names then carry the caller's hygiene); metamorphic oracle: the named program equals the documented chain written without any name (result, callback traces, event multiset). Non-trivial = >= 2 operators and >= 1 callback invoked",
        Which::C17 => "nesting stage: typed chains under all 12 macro names in which 45 % of the callback operands are closures around a nested macro invocation (any of the 12 names, chosen by the type the operand must return; async ones driven by a no-op-waker poll loop), block captures that evaluate a nested invocation, initial values that are macro invocations, and (40 % of the programs) a then / map / and_then handler whose body is a nested invocation over the results; nested bodies are generated by the same chain generator, recursively to depth 3 (wrappers, captures, further nestings inside); a quarter of the programs are 'shadow' programs instead: 2-4 branches with `let` names, locals of the calling function spelled the same, and a handler that mentions them (it must see the caller's locals; the control spells the `let` names differently). Oracle (metamorphic + differential): the outer macro against the documented chain with the same operand text - so every nested invocation is evaluated once inside a macro expansion and once in plain Rust - equal results, callback traces and event multisets. Non-trivial = >= 2 operators and >= 1 callback invoked; classes count nestings by place, inner macro and depth",
        Which::C19 => "bounds stage: typed chains under join! / try_join! / join_async! / try_join_async! with 1-7 branches whose values include `Ns` (holds an Rc: neither Send nor Clone) and `Mv` (move-only) in 60 % of the scalar positions, and half of whose branches borrow - shared (`&Vec` iterated) or mutably (`iter_mut` with a callback that changes the element in place) - from locals of the calling function; 45 % of the programs have a then / map / and_then handler that borrows a local of the caller (async then / and_then: the future it returns holds the borrow); oracle: the macro side compiles whenever the documented chain compiles (a new Clone / Send / 'static requirement is a compile error on the macro side only) and both give the same result and callback traces. Non-trivial = >= 2 operators and >= 1 callback invoked",
        Which::C11 => "chain stage: typed chains in which program i is forced to contain hoistable operator i mod 18 (the 14 expression-operand operators, `^@` / `?^@` twice as often) with block operands on 60 % of the operand positions - both operands of fold / try_fold, operands inside nested wrappers, several per branch and step; oracle: per branch the sequence of capture evaluations equals the written (position) order, each exactly once. Non-trivial = >= 2 captures evaluated",
        Which::C06 => "chain stage: typed chains with 2-4 branches under try_join! / try_join_spawn! / try_spawn!, program i forced to contain operator spelling i mod 22 (operand-less operators and wrappers included), `~` in front of 60 % of the top-level operators that follow a value of the macro's Option / Result type (only there can a step of a try macro end); inputs make initial values and callback results None / Err; the reference side evaluates the documented chains step by step across the branches and, at the end of every step, returns the value of the lowest-numbered active branch that is None / Err without evaluating anything further. Oracle: result, per-branch ordered traces and the multiset of all events equal - an operand, callback or block capture of a later step that still runs after a failing step is an extra event. Non-trivial = >= 2 operators and >= 1 callback invoked",
        Which::C03 => "chain stage: typed chains with 2-4 branches under the non-try macros (join! / join_spawn! / spawn! / join_async! / join_async_spawn! / async_spawn!; async ones over real futures and streams), program i forced to contain operator spelling i mod 22, `~` in front of half of the top-level operators - so in front of every spelling, the operand-less ones (`|n>`, `^^>`, `=>[]`, `<->`) and wrappers included; the reference side evaluates the documented chains step by step across the branches (step k of every branch, then step k+1) and logs a mark between steps, so every callback invocation, operand evaluation and block capture of the reference has a step number (lazy iterator adaptors: the step in which they are driven). Oracle: when macro and reference agree per branch, the macro's global event sequence must be non-decreasing in those step numbers - no event of step k+1 before the last event of step k, across all branches and threads / tasks. Non-trivial = >= 2 operators, >= 1 callback invoked, >= 2 steps",
        Which::C02 => "programs: typed chains in which program i is forced to contain wrapper operator (i / 3) mod 10 with closing mode i mod 3 (explicit `<<<`, implicit at the end of a step, implicit at the end of the branch), nesting depth <= 3, inner chains of length 0-3 generated goal-directed for the type each wrapper needs (&T -> bool for ?> ?@ ?&!>, T -> Option for ?|> ?|>@ =>, E -> Result for <=, E -> E for !>, &W -> () for ??), inner block captures, operators after `<<<`; all 12 macro names; inputs and oracle as C01 with the reference `.x(|v| v inner...) rest`. Non-trivial = >= 2 operators and >= 1 callback invoked",
    }
    .to_string();
    ev.assumptions = vec![
        "rustc/cargo, std, futures 0.3.26 and tokio 1.26 behave as documented".into(),
        "stages serving C07 / C11 / C12 / C17 / C19 attribute a difference to the property only when the control program (same program through the macro without the property's feature) agrees with the documented chain".into(),
        "the reference translation (README tables -> method chain) is written independently of join_impl; block-capture operands are hoisted on the reference side too, as the README documents".into(),
        "futures and streams in the async chains are immediately ready (ready(), stream::iter): pending points are the business of C03 / C09".into(),
    ];
    let known = evid::Known::load();
    let mut runner = new_runner(seed, match which { Which::C01 => 0xc01, Which::C02 => 0xc02, Which::C10 => 0xc10, Which::C11 => 0xc11, Which::C19 => 0xc19, Which::C17 => 0xc17, Which::C12 => 0xc12, Which::C07 => 0xc07, Which::C14 => 0xc14, Which::C03 => 0xc03, Which::C06 => 0xc06 }, 1);
    let mut progs: Vec<ChainProg> = Vec::new();
    let mut seen = HashSet::new();
    for i in 0..count {
        let p = strategy(i, which).new_tree(&mut runner).unwrap().current();
        let text = case_code(&p, 0).code;
        if seen.insert(text) {
            progs.push(p);
        }
    }
    ev.programs = progs.len() as u64;
    for p in &progs {
        for b in &p.branches {
            let mut prev = None;
            tally(&b.ops, &mut prev, &mut ev.classes, 0);
        }
        *ev.classes.entry(format!("macro {}", p.mac)).or_default() += 1;
        if p.frag == 1 {
            let t: String = p.branches.iter().map(|b| format!("{} {}", b.init_text, render_branch_macro(b))).collect();
            *ev.classes.entry(format!("operands as expr fragments{}", if t.contains(" <= ") { ", with a top-level operator look-alike" } else { "" })).or_default() += 1;
        }
        if p.branches.iter().any(|b| render_branch_macro(b).contains("__cnt += 1")) {
            *ev.classes.entry("a callback inside a wrapper body counts in a local of the caller".into()).or_default() += 1;
        }
        if p.mr_wrap && p.branches.iter().any(|b| b.let_name.is_some()) {
            *ev.classes.entry("invocation produced by a macro_rules! wrapper that is given the `let` names".into()).or_default() += 1;
        }
        if p.branches.iter().any(|b| b.let_name.as_ref().map(|n| n.0.starts_with("r#")).unwrap_or(false)) {
            *ev.classes.entry("raw identifier as `let` name".into()).or_default() += 1;
        }
        if let Some((k, t)) = &p.handler {
            *ev.classes.entry(format!("handler {}{}", k, if t.contains("&__hl") { " borrowing a local of the caller" } else if t.contains("__own") { " that is only FnOnce (gives away a value it owns)" } else if t.contains("((nm") { " mentioning locals of the caller that are spelled like the `let` names" } else { "" })).or_default() += 1;
        }
        *ev.classes.entry(format!("family {}", match p.fam { Family::Sync => "sync", Family::AsyncClosed => "async: sync chain closed with -> ready", Family::AsyncReal => "async: real futures / streams" })).or_default() += 1;
        for (place, inner, depth) in &p.nestings {
            *ev.classes.entry(format!("nested in {} ({} inside {}) depth {}", place, if inner.contains("async") { "async" } else if inner.contains("spawn") { "spawn" } else { "sync" }, if p.mac.contains("async") { "async" } else if p.mac.contains("spawn") { "spawn" } else { "sync" }, depth + 1)).or_default() += 1;
        }
    }
    // generator hole: every spelling must have been generated
    let mut holes = Vec::new();
    for (sp, _) in SPELLINGS.iter().filter(|_| matches!(which, Which::C01 | Which::C10)) {
        if ev.classes.get(&format!("op {}", sp)).copied().unwrap_or(0) == 0 {
            holes.push(sp.to_string());
        }
    }
    let pkg = format!("jvb_{}c", id.to_lowercase());
    let mut found: Vec<(ChainProg, Value, bool)> = Vec::new();
    let mut ref_fail_n = 0usize;
    for (ci, chunk) in progs.chunks(336).enumerate() {
        let res = run_batch(&pkg, chunk, seed.wrapping_add(ci as u64), inputs, id);
        ev.infra.extend(res.infra.iter().cloned());
        for (k, v) in &res.ref_fail {
            ref_fail_n += 1;
            ev.infra.push(format!("reference side of a generated program does not compile (generator bug): {:?}\n{}", v, case_code(&chunk[*k], *k).code));
        }
        for (k, v) in &res.compile_fail {
            found.push((chunk[*k].clone(), json!({"compile_errors": v}), true));
        }
        if !res.ctl_fail.is_empty() {
            *ev.classes.entry("control does not compile: case dropped (attributed elsewhere)".into()).or_default() += res.ctl_fail.len() as u64;
        }
        for r in &res.reports {
            let idx = r["case"].as_u64().unwrap_or(0) as usize;
            ev.evaluations += r["runs"].as_u64().unwrap_or(0);
            ev.nontrivial += r["nontrivial"].as_u64().unwrap_or(0);
            if let Some(m) = r["classes"].as_object() {
                for (k, v) in m {
                    if k.contains("control") {
                        *ev.classes.entry(k.clone()).or_default() += v.as_u64().unwrap_or(0);
                    }
                }
            }
            if let Some(s) = r["samples"].as_array() {
                if ev.samples.len() < 6 && !s.is_empty() && idx % 37 == 0 {
                    ev.samples.push(json!({"macro": chunk[idx].mac, "branches": chunk[idx].branches.iter().map(render_branch_macro).collect::<Vec<_>>(), "run": s[0]}));
                }
            }
            if let Some(vs) = r["violations"].as_array() {
                if let Some(v) = vs.first() {
                    found.push((chunk[idx].clone(), v.clone(), false));
                }
            }
        }
        if !found.is_empty() {
            break;
        }
    }
    let _ = known;
    if ev.samples.is_empty() {
        if let Some(p) = progs.first() {
            ev.samples.push(json!({"macro": p.mac, "branches": p.branches.iter().map(render_branch_macro).collect::<Vec<_>>(), "run": "no per-run sample was reported for this program"}));
        }
    }
    ev.violations = found.len() as u64;
    let mut exit = 0;
    found.sort_by_key(|f| f.2);
    if std::env::var("JV_DEBUG").is_ok() {
        for f in found.iter().take(30) {
            eprintln!("--- found (compile={}):\n{}\n{}", f.2, case_code(&f.0, 0).code, f.1);
        }
    }
    if let Some((p0, d0, c0)) = found.into_iter().next() {
        // shrink: prefixes and fewer branches, one crate per round
        let mut cur = (p0, d0, c0);
        let mut rounds = 0;
        'outer: loop {
            let cands = shrink_candidates(&cur.0);
            for chunk in cands.chunks(16) {
                rounds += 1;
                if rounds > if tier == "quick" { 10 } else { 30 } {
                    break 'outer;
                }
                let res = run_batch(&format!("jvs_{}", id.to_lowercase()), chunk, seed, inputs, id);
                if let Some((i, d, c)) = first_bad(&res) {
                    if c == cur.2 {
                        cur = (chunk[i].clone(), d, c);
                        continue 'outer;
                    }
                }
            }
            break;
        }
        let cc = case_code(&cur.0, 0);
        let (code, ref_from, n_ops, concurrent, ctl_from) = (cc.code, cc.ref_from, cc.n_ops, cc.concurrent, cc.ctl_from);
        let short_circuit_flag = {
            let k = macro_kind(&cur.0.mac);
            k.is_async && k.is_try && cur.0.branches.len() >= 2
        };
        let replay = evid::write_replay(
            id,
            &json!({"property": id, "engine": "R-chain", "mode": id, "seed": seed, "tier": tier, "inputs": inputs, "macro": cur.0.mac,
                    "branches": cur.0.branches.iter().map(render_branch_macro).collect::<Vec<_>>(),
                    "code": code, "ref_from": ref_from, "ctl_from": ctl_from, "n_ops": n_ops, "concurrent": concurrent, "short_circuit": short_circuit_flag, "compile_failure": cur.2, "violation": cur.1}),
        );
        evid::print_violation(id, &replay);
        exit = 1;
    } else if !holes.is_empty() {
        eprintln!("generator hole: operator spellings never generated: {:?}", holes);
        exit = 2;
    } else if ref_fail_n > 0 || !ev.infra.is_empty() {
        eprintln!("infrastructure notes:\n{}", ev.infra.iter().take(5).cloned().collect::<Vec<_>>().join("\n"));
        exit = 2;
    }
    if id == "C02" && which == Which::C02 && !crate::checks::probe_known("C02") && exit == 0 {
        exit = 2;
    }
    ev.write(t0.elapsed().as_secs_f64());
    println!("{} {}: programs={} runs={} nontrivial={} violations={} reference_side_failures={} wall={:.1}s", id, tier, ev.programs, ev.evaluations, ev.nontrivial, ev.violations, ref_fail_n, t0.elapsed().as_secs_f64());
    exit
}

pub fn replay(v: &Value) -> i32 {
    let id = v["property"].as_str().unwrap_or("C01").to_string();
    let code = v["code"].as_str().unwrap_or("").to_string();
    let case = CaseSrc {
        idx: 0,
        code,
        table: format!("        ChainCase {{ idx: 0, mac: case_0_mac, refn: case_0_ref, n_ops: {}, concurrent: {}, short_circuit: {}, ctl: {} }},\n", v["n_ops"].as_u64().unwrap_or(2), v["concurrent"].as_bool().unwrap_or(false), v["short_circuit"].as_bool().unwrap_or(false), if v["ctl_from"].is_u64() { "Some(case_0_ctl)" } else { "None" }),
        ref_from: v["ref_from"].as_u64().map(|x| x as usize),
        ctl_from: v["ctl_from"].as_u64().map(|x| x as usize),
    };
    let env = vec![("JV_SEED".to_string(), v["seed"].as_u64().unwrap_or(1).to_string()), ("JV_BUDGET".to_string(), v["inputs"].as_u64().unwrap_or(64).to_string()), ("JV_MODE".to_string(), id.clone())];
    let res = batch::build_and_run_src(&format!("jvr_{}", id.to_lowercase()), HEADER, &[case], &main_text, &env, &[], "", 300, 1);
    if let Some((_, d, _)) = first_bad(&res) {
        println!("replay: violation reproduced: {}", d);
        1
    } else if !res.ref_fail.is_empty() || !res.infra.is_empty() {
        eprintln!("replay: infrastructure problem: {:?} {:?}", res.ref_fail, res.infra);
        2
    } else {
        println!("replay: macro and documented chain agree on the current tree");
        0
    }
}
