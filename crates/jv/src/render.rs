//! Renders a grid program to the Rust source of one case function.

use jvrt::model::body_async;
use jvrt::prog::*;

fn operand(a: &Act, prog_async: bool, asy: bool, flavor: Flavor, muts: &[bool]) -> String {
    // callbacks of a sync scope inside an async program live in the `s` sub-module
    let pre = if prog_async && !asy { "s::" } else { "" };
    let id = a.id;
    let wty = "W";
    let fut = "F";
    let (ctor, inline_params, inline_call, ret): (&str, String, String, &str) = match a.op {
        Op::Map if asy => ("fm", "w: W".into(), format!("xm({}, w)", id), wty),
        Op::Map => ("fm", "t: Tok".into(), format!("{}xm({}, t)", pre, id), "Tok"),
        Op::TokThen => ("tt", "t: Tok".into(), format!("{}xtt({}, t)", pre, id), "Tok"),
        Op::AndThen | Op::TokConv => (
            if a.op == Op::AndThen { "fa" } else { "tw" },
            "t: Tok".into(),
            format!("{}xa({}, t)", pre, id),
            if asy { fut } else { wty },
        ),
        Op::Filter => ("ff", "t: &Tok".into(), format!("xf({}, t)", id), "bool"),
        Op::Or => ("alt", String::new(), String::new(), ""),
        Op::OrElse => match flavor {
            Flavor::Opt if !prog_async => ("fo", "".into(), format!("xo({})", id), wty),
            _ => ("fo", "t: Tok".into(), format!("{}xo({}, t)", pre, id), if asy { fut } else { wty }),
        },
        Op::MapErr => ("fe", "t: Tok".into(), format!("{}xe({}, t)", pre, id), "Tok"),
        Op::Inspect => ("fi", "w: &W".into(), format!("xi({}, w)", id), "()"),
        Op::Then => ("ft", "w: W".into(), format!("{}xt({}, w)", pre, id), wty),
        Op::Dot | Op::TokDot | Op::Look | Op::Check => unreachable!("dot operands are rendered by dot_operand"),
    };
    let core = match a.form {
        0 => {
            if a.op == Op::Or {
                format!("{}alt({})", pre, id)
            } else {
                format!("{}{}({})", pre, ctor, id)
            }
        }
        1 => format!("|{}| {}", inline_params, inline_call),
        _ => format!("|{}| -> {} {{ {} }}", inline_params, ret, inline_call),
    };
    match &a.cap {
        None => core,
        Some(c) => {
            // every fifth block operand is a labeled block whose value leaves through `break` (a block
            // operand like any other)
            let labeled = c.id % 5 == 0;
            let mut s = if labeled { format!("'cb: {{ cap({}); ", c.id) } else { format!("{{ cap({}); ", c.id) };
            for b in &c.snaps {
                if muts.get(*b).copied().unwrap_or(false) {
                    s.push_str(&format!("snapm({}, &mut nb{}); ", c.id, b));
                } else {
                    s.push_str(&format!("snap({}, &nb{}); ", c.id, b));
                }
            }
            if labeled {
                s.push_str("break 'cb ");
            }
            s.push_str(&core);
            s.push_str(" }");
            s
        }
    }
}

fn dot_operand(a: &Act, asy: bool) -> String {
    match a.op {
        Op::Dot => {
            if asy {
                format!("then(fd({}))", a.id)
            } else {
                format!("step({})", a.id)
            }
        }
        Op::TokDot => format!("bump({})", a.id),
        Op::Look => format!("look({})", a.id),
        Op::Check => format!("check({})", a.id),
        _ => unreachable!(),
    }
}

/// renders a list of actions; `first_deferred` puts `~` in front of the first operator
fn acts(out: &mut String, list: &[Act], prog_async: bool, asy: bool, flavor: Flavor, first_deferred: bool, muts: &[bool]) {
    for (i, a) in list.iter().enumerate() {
        out.push(' ');
        if i == 0 && first_deferred {
            out.push('~');
        }
        let tok = if a.op.is_dot() && a.alt { ">." } else { a.op.token() };
        out.push_str(tok);
        if let Some(inner) = &a.wrap {
            out.push_str(" >>>");
            acts(out, inner, prog_async, body_async(a.op, asy), flavor, false, muts);
            if a.closed {
                out.push_str(" <<<");
            }
        } else if a.op.is_dot() {
            out.push(' ');
            out.push_str(&dot_operand(a, asy));
        } else {
            out.push(' ');
            out.push_str(&operand(a, prog_async, asy, flavor, muts));
        }
    }
}

pub fn macro_body(p: &Prog) -> String {
    let asy = p.kind().is_async;
    let mut s = String::new();
    // options
    let o = &p.opts;
    for k in &o.order {
        match k {
            0 => {
                if let Some(x) = &o.futures_path {
                    s.push_str(&format!("futures_crate_path({})\n        ", x));
                }
            }
            1 => {
                if let Some(x) = &o.joiner {
                    s.push_str(&format!("custom_joiner(jvrt::{}!)\n        ", x));
                }
            }
            2 => {
                if let Some(x) = o.transpose {
                    s.push_str(&format!("transpose_results({})\n        ", x));
                }
            }
            _ => {
                if let Some(x) = o.lazy {
                    s.push_str(&format!("lazy_branches({})\n        ", x));
                }
            }
        }
    }
    let n = p.branches.len();
    let handler_text = |h: &Handler| -> String {
        let params: Vec<String> = (0..n).map(|i| format!("a{}", i)).collect();
        let f = match h.kind {
            HKind::Map => "h_map",
            HKind::AndThen => "h_and_then",
            HKind::Then => "h_then",
        };
        let clo = format!("|{}| {}({}, [{}])", params.join(", "), f, h.id, params.join(", "));
        if h.block {
            format!("{} => {{ hexpr({}); {} }}", h.kind.name(), h.id, clo)
        } else {
            format!("{} => {}", h.kind.name(), clo)
        }
    };
    let muts: Vec<bool> = p.branches.iter().map(|b| b.name.as_ref().map(|n| n.1).unwrap_or(false)).collect();
    let mut parts: Vec<String> = Vec::new();
    for (b, br) in p.branches.iter().enumerate() {
        if let Some(h) = &p.handler {
            if h.pos == b {
                parts.push(handler_text(h));
            }
        }
        let mut t = String::new();
        if let Some((name, m)) = &br.name {
            t.push_str(&format!("let {}{} = ", if *m { "mut " } else { "" }, name));
        }
        // initial value
        let init_core = format!("init({})", br.init.id);
        match &br.init.cap {
            None => t.push_str(&init_core),
            Some(c) if c.id % 5 == 0 => t.push_str(&format!("'cb: {{ cap({}); break 'cb {} }}", c.id, init_core)),
            Some(c) => t.push_str(&format!("{{ cap({}); {} }}", c.id, init_core)),
        }
        // thread-spawning macro with an explicit `lazy_branches(false)`: the branch expression of a step is
        // handed to the thread as it is, so every step ends in `-> defer` (a closure returning the value)
        let eager_spawn = p.eager_spawn();
        for (si, cell) in br.steps.iter().enumerate() {
            acts(&mut t, cell, asy, asy, p.flavor, si > 0, &muts);
            if eager_spawn {
                t.push_str(if cell.is_empty() && si > 0 { " ~-> defer" } else { " -> defer" });
            }
        }
        parts.push(t);
    }
    if let Some(h) = &p.handler {
        if h.pos >= n {
            parts.push(handler_text(h));
        }
    }
    s.push_str(&parts.join(",\n        "));
    s
}

fn conversion(p: &Prog) -> String {
    let n = p.branches.len();
    let kind = p.kind();
    let names: Vec<String> = (0..n).map(|i| format!("v{}", i)).collect();
    if p.handler.is_some() {
        return "let r: W = __res; let o = Out::One(r.to_val()); drop(r); o".to_string();
    }
    if !kind.is_try {
        if n == 1 {
            "let v0: W = __res; Out::Vals(vec![v0.to_val()])".to_string()
        } else {
            format!(
                "let ({}): ({}) = __res; Out::Vals(vec![{}])",
                names.join(", "),
                vec!["W"; n].join(", "),
                names.iter().map(|v| format!("{}.to_val()", v)).collect::<Vec<_>>().join(", ")
            )
        }
    } else {
        let tup_ty = if n == 1 { "Tok".to_string() } else { format!("({})", vec!["Tok"; n].join(", ")) };
        let tup_pat = if n == 1 { "v0".to_string() } else { format!("({})", names.join(", ")) };
        let toks = names.iter().map(|v| format!("{}.h", v)).collect::<Vec<_>>().join(", ");
        match p.flavor {
            Flavor::Res => format!(
                "let r: Result<{}, Tok> = __res; match r {{ Ok({}) => Out::Toks(vec![{}]), Err(e) => Out::One(Val::Err(e.h)) }}",
                tup_ty, tup_pat, toks
            ),
            Flavor::Opt => format!(
                "let r: Option<{}> = __res; match r {{ Some({}) => Out::Toks(vec![{}]), None => Out::One(Val::Nil) }}",
                tup_ty, tup_pat, toks
            ),
        }
    }
}

/// C19: measure the allocation calls of the evaluating thread across the macro expression
pub static MEASURE_ALLOC: std::sync::atomic::AtomicBool = std::sync::atomic::AtomicBool::new(false);

/// The source of one case: `fn case_<idx>() -> Out` (sync) or `-> LocalBoxFuture<'static, Out>`.
pub fn case_fn(p: &Prog, idx: usize) -> String {
    let kind = p.kind();
    let module = if kind.is_async {
        "ar"
    } else {
        match p.flavor {
            Flavor::Res => "r",
            Flavor::Opt => "o",
        }
    };
    let body = macro_body(p);
    let conv = conversion(p);
    if kind.is_async {
        format!(
            "#[allow(unused, non_snake_case)]\nfn case_{idx}() -> LocalBoxFuture<'static, Out> {{\n    use jvrt::cb::{module}::*;\n    let __fut = ::join::{mac}! {{\n        {body}\n    }};\n    Box::pin(async move {{ let __res = __fut.await; {conv} }})\n}}\n",
            idx = idx,
            module = module,
            mac = p.mac,
            body = body,
            conv = conv
        )
    } else {
        format!(
            "#[allow(unused, non_snake_case)]\nfn case_{idx}() -> Out {{\n    use jvrt::cb::{module}::*;\n    {pre}let __res = ::join::{mac}! {{\n        {body}\n    }};\n    {post}{conv}\n}}\n",
            pre = if MEASURE_ALLOC.load(std::sync::atomic::Ordering::SeqCst) { "let __a0 = jvrt::alloc::count();\n    " } else { "" },
            post = if MEASURE_ALLOC.load(std::sync::atomic::Ordering::SeqCst) { "jvrt::alloc::report(jvrt::alloc::count() - __a0);\n    " } else { "" },
            idx = idx,
            module = module,
            mac = p.mac,
            body = body,
            conv = conv
        )
    }
}

pub fn file_header() -> &'static str {
    "#![allow(unused_imports, unused_variables, unused_mut, unused_parens, unused_braces, dead_code)]\n#![recursion_limit = \"1024\"]\nuse jvrt::cb::Wv;\nuse jvrt::runner::{Case, CaseFn};\nuse jvrt::sem::{Out, Val};\nuse jvrt::fx::future::LocalBoxFuture;\nuse jvrt::fx as jvfx;\n\n"
}

pub fn escape_str(s: &str) -> String {
    let mut o = String::new();
    for c in s.chars() {
        match c {
            '"' => o.push_str("\\\""),
            '\\' => o.push_str("\\\\"),
            c => o.push(c),
        }
    }
    o
}

/// `main` with the case table
pub fn file_main(progs: &[(usize, &Prog)]) -> String {
    let mut s = String::from("fn main() {\n    let cases = vec![\n");
    for (idx, p) in progs {
        let f = if p.kind().is_async { format!("CaseFn::Async(case_{})", idx) } else { format!("CaseFn::Sync(case_{})", idx) };
        s.push_str(&format!(
            "        Case {{ idx: {}, desc: \"{}\", f: {} }},\n",
            idx,
            escape_str(&p.to_json().to_string()),
            f
        ));
    }
    s.push_str("    ];\n    jvrt::runner::main(&cases);\n}\n");
    s
}
