//! Orchestrator of the engine-R checks (generated programs compiled against /repo/join).
mod batch;
mod chain;
mod chaincheck;
mod checks;
mod evid;
mod gen;
mod grid;
mod render;

fn usage() -> ! {
    eprintln!("usage: jv check <Cxx> [--tier quick|thorough] [--seed N] | jv replay <file> | jv show <Cxx> [--seed N]");
    std::process::exit(2)
}

fn main() {
    let args: Vec<String> = std::env::args().collect();
    if args.len() >= 2 && args[1] == "warm" {
        std::process::exit(checks::warm());
    }
    if args.len() < 3 {
        usage();
    }
    let mut tier = std::env::var("VERIF_TIER").unwrap_or_else(|_| "quick".to_string());
    let mut seed: u64 = std::env::var("VERIF_SEED").ok().and_then(|s| s.parse().ok()).unwrap_or(1);
    let mut i = 3;
    while i < args.len() {
        match args[i].as_str() {
            "--tier" => {
                tier = args[i + 1].clone();
                i += 2;
            }
            "--seed" => {
                seed = args[i + 1].parse().unwrap_or(1);
                i += 2;
            }
            _ => usage(),
        }
    }
    if tier != "quick" && tier != "thorough" {
        tier = "quick".into();
    }
    let code = match args[1].as_str() {
        "check" => match args[2].as_str() {
            "C01" | "C02" => chaincheck::run(&args[2], &tier, seed),
            // second stage of C10 / C11: typed chains (iterator callbacks, fold operands)
            "C10chain" => chaincheck::run("C10", &tier, seed),
            "C11chain" => chaincheck::run("C11", &tier, seed),
            "C19chain" => chaincheck::run("C19", &tier, seed),
            "C17chain" => chaincheck::run("C17", &tier, seed),
            "C12chain" => chaincheck::run("C12", &tier, seed),
            "C07chain" => chaincheck::run("C07", &tier, seed),
            "C14chain" => chaincheck::run("C14", &tier, seed),
            "C03chain" => chaincheck::run("C03", &tier, seed),
            "C06chain" => chaincheck::run("C06", &tier, seed),
            _ => checks::run(&args[2], &tier, seed),
        },
        "show" => checks::show(&args[2], &tier, seed),
        "replay" => {
            let text = std::fs::read_to_string(&args[2]).expect("replay file");
            let v: serde_json::Value = serde_json::from_str(&text).expect("replay json");
            match v["engine"].as_str() {
                Some("R-grid") => grid::replay(&v),
                Some("R-chain") => chaincheck::replay(&v),
                other => {
                    eprintln!("unknown replay engine {:?}", other);
                    2
                }
            }
        }
        _ => usage(),
    };
    std::process::exit(code);
}
