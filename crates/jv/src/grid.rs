//! Generic flow of a grid-program check: generate, render, build in batches, run,
//! aggregate, shrink the first violation, write replay + evidence.

use crate::batch::{self, BatchSpec, CaseSrc};
use crate::evid::{self, Evidence, Known};
use crate::render;
use jvrt::prog::*;
use serde_json::{json, Value};
use std::collections::{BTreeMap, BTreeSet, HashSet};
use std::time::Instant;

pub struct GridCheck {
    pub id: String,
    pub mode: String,
    pub level: String,
    pub progs: Vec<Prog>,
    pub budget: usize,
    pub features: Vec<&'static str>,
    pub rule: String,
    pub assumptions: Vec<String>,
    pub batch_size: usize,
    pub timeout_s: u64,
    pub exhaustive: Option<bool>,
    pub extra_env: Vec<(String, String)>,
    /// signature of a known-finding class for a program (None: not in any known class)
    pub known_sig: Option<fn(&Prog) -> Option<String>>,
    /// extra lines for the generated crate's [dependencies] ("#nofutures": no dependency called futures)
    pub extra_deps: String,
    /// consecutive programs forming one comparison group (C07: the same program under the macro
    /// names of one class); batches keep groups together
    pub group: usize,
    /// cross-case oracle over the reports of one batch: (case index, violation detail)
    /// a generated program that does not compile on the macro side is a violation (properties with a
    /// compile-time side) or leaves the program undecided (pure run-time properties)
    pub compile_decides: bool,
    pub post: Option<fn(&[Prog], &[Value]) -> Vec<(usize, Value)>>,
}

pub struct Found {
    pub prog: Prog,
    pub detail: Value,
    pub compile: bool,
}

fn case_src(p: &Prog, idx: usize) -> CaseSrc {
    let f = if p.kind().is_async { format!("CaseFn::Async(case_{})", idx) } else { format!("CaseFn::Sync(case_{})", idx) };
    CaseSrc {
        idx,
        code: render::case_fn(p, idx),
        table: format!("        Case {{ idx: {}, desc: \"{}\", f: {} }},\n", idx, render::escape_str(&p.to_json().to_string()), f),
        ref_from: None,
        ctl_from: None,
    }
}

fn main_text(cs: &[&CaseSrc]) -> String {
    let mut s = String::from("fn main() {\n    let cases = vec![\n");
    for c in cs {
        s.push_str(&c.table);
    }
    s.push_str("    ];\n    jvrt::runner::main(&cases);\n}\n");
    s
}

pub use crate::batch::BatchResult;

/// Builds and runs `progs` (idx = position) as one generated crate.
pub fn build_and_run(pkg: &str, progs: &[Prog], mode: &str, budget: usize, seed: u64, features: &[&str], timeout_s: u64, extra_env: &[(String, String)], nbins: usize) -> BatchResult {
    build_and_run_deps(pkg, progs, mode, budget, seed, features, timeout_s, extra_env, nbins, "")
}

pub fn build_and_run_deps(pkg: &str, progs: &[Prog], mode: &str, budget: usize, seed: u64, features: &[&str], timeout_s: u64, extra_env: &[(String, String)], nbins: usize, extra_deps: &str) -> BatchResult {
    let cases: Vec<CaseSrc> = progs.iter().enumerate().map(|(i, p)| case_src(p, i)).collect();
    let mut env = vec![
        ("JV_MODE".to_string(), mode.to_string()),
        ("JV_SEED".to_string(), seed.to_string()),
        ("JV_BUDGET".to_string(), budget.to_string()),
    ];
    env.extend(extra_env.iter().cloned());
    batch::build_and_run_src(pkg, render::file_header(), &cases, &main_text, &env, features, extra_deps, timeout_s, nbins)
}

// ------------------------------------------------------------------ shrinking

fn remove_branch(p: &Prog, j: usize) -> Option<Prog> {
    if p.branches.len() <= 1 {
        return None;
    }
    let mut q = p.clone();
    q.branches.remove(j);
    fn fix(acts: &mut Vec<Act>, j: usize) {
        for a in acts.iter_mut() {
            if let Some(c) = &mut a.cap {
                c.snaps.retain(|b| *b != j);
                for b in c.snaps.iter_mut() {
                    if *b > j {
                        *b -= 1;
                    }
                }
            }
            if let Some(w) = &mut a.wrap {
                fix(w, j);
            }
        }
    }
    for (bi, b) in q.branches.iter_mut().enumerate() {
        if let Some((n, _)) = &mut b.name {
            *n = format!("nb{}", bi);
        }
        for s in b.steps.iter_mut() {
            fix(s, j);
        }
    }
    if let Some(h) = &mut q.handler {
        if h.pos > j {
            h.pos -= 1;
        }
    }
    Some(q)
}

fn strip(acts: &mut Vec<Act>, f: &dyn Fn(&mut Act)) {
    for a in acts.iter_mut() {
        f(a);
        if let Some(w) = &mut a.wrap {
            strip(w, f);
        }
    }
}

pub fn shrink_candidates(p: &Prog) -> Vec<Prog> {
    let mut out = Vec::new();
    for j in 0..p.branches.len() {
        if let Some(q) = remove_branch(p, j) {
            out.push(q);
        }
    }
    // drop the last step of a branch
    for j in 0..p.branches.len() {
        if p.branches[j].steps.len() > 1 {
            let mut q = p.clone();
            q.branches[j].steps.pop();
            out.push(q);
        }
    }
    // drop one top-level action
    for j in 0..p.branches.len() {
        for s in 0..p.branches[j].steps.len() {
            let len = p.branches[j].steps[s].len();
            for k in 0..len {
                if s > 0 && len == 1 {
                    continue;
                }
                let mut q = p.clone();
                q.branches[j].steps[s].remove(k);
                // an implicitly closed wrapper must stay last
                let n2 = q.branches[j].steps[s].len();
                for (i, a) in q.branches[j].steps[s].iter_mut().enumerate() {
                    if i + 1 != n2 {
                        a.closed = true;
                    }
                }
                out.push(q);
            }
        }
    }
    if p.handler.is_some() {
        let mut q = p.clone();
        q.handler = None;
        out.push(q);
    }
    // remove all captures / names / inline forms
    let has_caps = {
        let mut any = false;
        for b in &p.branches {
            any |= b.init.cap.is_some();
            for s in &b.steps {
                let mut v = Vec::new();
                jvrt::model::all_acts(s, &mut v);
                any |= v.iter().any(|a| a.cap.is_some());
            }
        }
        any
    };
    if has_caps {
        let mut q = p.clone();
        for b in q.branches.iter_mut() {
            b.init.cap = None;
            for s in b.steps.iter_mut() {
                strip(s, &|a| a.cap = None);
            }
        }
        out.push(q);
    }
    if p.branches.iter().any(|b| b.name.is_some()) {
        let mut q = p.clone();
        for b in q.branches.iter_mut() {
            b.name = None;
            b.init.cap.as_mut().map(|c| c.snaps.clear());
            for s in b.steps.iter_mut() {
                strip(s, &|a| {
                    if let Some(c) = &mut a.cap {
                        c.snaps.clear()
                    }
                });
            }
        }
        out.push(q);
    }
    {
        let mut q = p.clone();
        for b in q.branches.iter_mut() {
            for s in b.steps.iter_mut() {
                strip(s, &|a| a.form = 0);
            }
        }
        if &q != p {
            out.push(q);
        }
    }
    out
}

fn first_violation(res: &BatchResult) -> Option<(usize, Value, bool)> {
    if let Some((k, v)) = res.compile_fail.iter().next() {
        return Some((*k, json!({"compile_errors": v}), true));
    }
    let mut best: Option<(usize, Value)> = None;
    for r in &res.reports {
        if r["violations"].as_array().map(|a| !a.is_empty()).unwrap_or(false) {
            let idx = r["case"].as_u64().unwrap() as usize;
            if best.as_ref().map(|b| idx < b.0).unwrap_or(true) {
                best = Some((idx, r["violations"][0].clone()));
            }
        }
    }
    best.map(|(i, v)| (i, v, false))
}

pub fn shrink(check: &GridCheck, seed: u64, start: Found, max_steps: usize) -> Found {
    let mut cur = start;
    let mut steps = 0;
    let pkg = format!("jvs_{}", check.id.to_lowercase());
    // (the verdict is already in; a wall-clock cap only limits how small the replayed program gets -
    // failing runs of the thread checks wait for deadlines)
    let t0 = Instant::now();
    'outer: loop {
        let cands: Vec<Prog> = shrink_candidates(&cur.prog).into_iter().filter(|c| !crate::gen::is_d4(c)).collect();
        for chunk in cands.chunks(16) {
            if steps >= max_steps || t0.elapsed().as_secs() > 150 {
                break 'outer;
            }
            steps += 1;
            // all candidates of a chunk are built as one crate (one per binary)
            let res = build_and_run_deps(&pkg, chunk, &check.mode, check.budget, seed, &check.features, check.timeout_s, &check.extra_env, 16, &check.extra_deps);
            if let Some((i, d, c)) = first_violation(&res) {
                // a compile failure must stay the same failure (first message), or shrinking may
                // drift into a different problem
                let same = c == cur.compile && (!c || d["compile_errors"][0].as_str().map(|s| s.split(" (line").next().unwrap_or("").to_string()) == cur.detail["compile_errors"][0].as_str().map(|s| s.split(" (line").next().unwrap_or("").to_string()));
                if same {
                    cur = Found { prog: chunk[i].clone(), detail: d, compile: c };
                    continue 'outer;
                }
            }
        }
        break;
    }
    cur
}

// ------------------------------------------------------------------ main flow

pub fn run(check: GridCheck, tier: &str, seed: u64) -> i32 {
    let t0 = Instant::now();
    let known = Known::load();
    let mut ev = Evidence { property: check.id.clone(), tier: tier.to_string(), seed, level: check.level.clone(), rule: check.rule.clone(), assumptions: check.assumptions.clone(), exhaustive: check.exhaustive, ..Default::default() };
    // distinct programs only
    let mut seen = HashSet::new();
    let mut progs: Vec<Prog> = Vec::new();
    let mut known_hits: BTreeMap<String, u64> = BTreeMap::new();
    for p in &check.progs {
        let text = render::case_fn(p, 0);
        if check.group <= 1 && !seen.insert(text) {
            continue;
        }
        if let Some(f) = check.known_sig {
            if let Some(sig) = f(p) {
                if known.open(&check.id, &sig).is_some() {
                    *known_hits.entry(sig).or_default() += 1;
                    ev.excluded_known += 1;
                    continue;
                }
            }
        }
        progs.push(p.clone());
    }
    ev.programs = progs.len() as u64;
    let mut found: Vec<Found> = Vec::new();
    let mut undecided: Vec<(String, String)> = Vec::new();
    let pkg = format!("jvb_{}", check.id.to_lowercase());
    let mut exit = 0;
    let bsize = (check.batch_size.max(1) / check.group.max(1)).max(1) * check.group.max(1);
    for (ci, chunk) in progs.chunks(bsize).enumerate() {
        let res = build_and_run_deps(&pkg, chunk, &check.mode, check.budget, seed.wrapping_add(ci as u64), &check.features, check.timeout_s, &check.extra_env, 16, &check.extra_deps);
        if !res.infra.is_empty() {
            ev.infra.extend(res.infra.iter().cloned());
        }
        for (k, v) in &res.compile_fail {
            if check.compile_decides {
                found.push(Found { prog: chunk[*k].clone(), detail: json!({"compile_errors": v}), compile: true });
            } else {
                // a run-time property cannot be decided for a program the tree cannot compile
                undecided.push((render::macro_body(&chunk[*k]).replace("\n        ", " "), v.first().cloned().unwrap_or_default()));
            }
        }
        let mut reported: HashSet<usize> = HashSet::new();
        for r in &res.reports {
            let idx = r["case"].as_u64().unwrap_or(0) as usize;
            reported.insert(idx);
            ev.evaluations += r["runs"].as_u64().unwrap_or(0);
            ev.nontrivial += r["nontrivial"].as_u64().unwrap_or(0);
            ev.add_classes(&r["classes"]);
            if let Some(s) = r["samples"].as_array() {
                if ev.samples.len() < 6 {
                    for x in s.iter().take(1) {
                        let text: String = render::macro_body(&chunk[idx]).replace("\n        ", " ");
                        let short: String = if text.chars().count() > 900 { format!("{} ... [{} characters]", text.chars().take(900).collect::<String>(), text.chars().count()) } else { text };
                        ev.samples.push(json!({"program": short, "macro": chunk[idx].mac, "run": x}));
                    }
                }
            }
            if let Some(inf) = r["infra"].as_array() {
                for x in inf {
                    ev.infra.push(format!("case {}: {}", idx, x));
                }
            }
            if let Some(vs) = r["violations"].as_array() {
                for v in vs.iter().take(1) {
                    found.push(Found { prog: chunk[idx].clone(), detail: v.clone(), compile: false });
                }
            }
        }
        if let Some(post) = check.post {
            for (idx, d) in post(chunk, &res.reports) {
                found.push(Found { prog: chunk[idx].clone(), detail: d, compile: false });
            }
        }
        let missing = chunk.len() - res.compile_fail.len() - reported.len().min(chunk.len() - res.compile_fail.len());
        if missing > 0 {
            ev.infra.push(format!("batch {}: {} cases produced no report", ci, missing));
        }
        if !found.is_empty() {
            break; // stop generating at the first failing batch; shrink what we have
        }
    }
    for (sig, n) in &known_hits {
        let what = known.open(&check.id, sig).and_then(|e| e["what"].as_str()).unwrap_or("");
        println!("KNOWN-FINDING: property={} {} [{} generated programs of this class excluded]", check.id, what, n);
        ev.known_findings.push(sig.clone());
    }
    if ev.samples.is_empty() {
        // never leave the sample list empty: show the first generated program
        if let Some(p) = progs.first() {
            let text: String = render::macro_body(p).replace("\n        ", " ").chars().take(900).collect();
            ev.samples.push(json!({"program": text, "macro": p.mac, "run": "no per-run sample was reported for this program"}));
        }
    }
    ev.excluded_known += crate::checks::EXCLUDED_D4.load(std::sync::atomic::Ordering::SeqCst);
    ev.violations = found.len() as u64;
    if std::env::var("JV_DEBUG").is_ok() {
        for f in found.iter().take(40) {
            eprintln!("--- found (compile={}):\n{}\n{}", f.compile, render::macro_body(&f.prog), f.detail);
        }
    }
    // prefer a behavioural violation over a compile failure as the reported witness
    found.sort_by_key(|f| f.compile);
    if let Some(first) = found.into_iter().next() {
        let max_shrink = if check.group > 1 { 0 } else if tier == "quick" { 12 } else { 40 };
        let small = shrink(&check, seed, first, max_shrink);
        let group_progs: Vec<Value> = if check.group > 1 {
            // the whole comparison group of the witness
            let text = render::case_fn(&small.prog, 0);
            let pos = progs.iter().position(|p| render::case_fn(p, 0) == text).unwrap_or(0);
            let g0 = pos / check.group * check.group;
            progs[g0..(g0 + check.group).min(progs.len())].iter().map(|p| p.to_json()).collect()
        } else {
            vec![]
        };
        let replay = evid::write_replay(
            &check.id,
            &json!({
                "property": check.id, "engine": "R-grid", "mode": check.mode, "seed": seed, "tier": tier, "budget": check.budget,
                "features": check.features, "extra_env": check.extra_env, "extra_deps": check.extra_deps,
                "program": small.prog.to_json(),
                "group": group_progs,
                "rendered": render::case_fn(&small.prog, 0),
                "compile_failure": small.compile,
                "violation": small.detail,
            }),
        );
        evid::print_violation(&check.id, &replay);
        exit = 1;
    } else if !undecided.is_empty() {
        let (p, e) = &undecided[0];
        eprintln!(
            "inconclusive: {} generated programs do not compile against this tree, so {} (a run-time property) cannot be decided for them; no violation among the {} that do. First: {} :: {}",
            undecided.len(),
            check.id,
            ev.programs as usize - undecided.len().min(ev.programs as usize),
            p.chars().take(600).collect::<String>(),
            e.chars().take(300).collect::<String>()
        );
        ev.infra.push(format!("{} generated programs do not compile against this tree (undecided)", undecided.len()));
        exit = 2;
    } else if !ev.infra.is_empty() && ev.evaluations == 0 {
        eprintln!("infrastructure failure: {}", ev.infra.join("\n"));
        exit = 2;
    } else if !ev.infra.is_empty() {
        eprintln!("infrastructure notes: {}", ev.infra.join("\n"));
        exit = 2;
    }
    ev.write(t0.elapsed().as_secs_f64());
    println!(
        "{} {}: programs={} runs={} nontrivial={} violations={} wall={:.1}s",
        check.id,
        tier,
        ev.programs,
        ev.evaluations,
        ev.nontrivial,
        ev.violations,
        t0.elapsed().as_secs_f64()
    );
    exit
}

/// Replays a saved grid violation: rebuild the saved program against the current tree and re-run.
pub fn replay(v: &Value) -> i32 {
    let prog = Prog::from_json(&v["program"]);
    let id = v["property"].as_str().unwrap().to_string();
    let mode = v["mode"].as_str().unwrap().to_string();
    let feats: Vec<String> = v["features"].as_array().map(|a| a.iter().filter_map(|x| x.as_str().map(|s| s.to_string())).collect()).unwrap_or_default();
    let feats_ref: Vec<&str> = feats.iter().map(|s| s.as_str()).collect();
    let extra: Vec<(String, String)> = v["extra_env"]
        .as_array()
        .map(|a| a.iter().filter_map(|p| Some((p[0].as_str()?.to_string(), p[1].as_str()?.to_string()))).collect())
        .unwrap_or_default();
    let progs: Vec<Prog> = match v["group"].as_array() {
        Some(g) if !g.is_empty() => g.iter().map(Prog::from_json).collect(),
        _ => vec![prog],
    };
    let res = build_and_run_deps(&format!("jvr_{}", id.to_lowercase()), &progs, &mode, v["budget"].as_u64().unwrap_or(256) as usize, v["seed"].as_u64().unwrap_or(0), &feats_ref, 120, &extra, 1, v["extra_deps"].as_str().unwrap_or(""));
    let post_found = if progs.len() > 1 { crate::checks::post_for(&id).map(|f| f(&progs, &res.reports)).unwrap_or_default() } else { vec![] };
    if let Some((_, d, _)) = first_violation(&res) {
        println!("replay: violation reproduced: {}", d);
        1
    } else if let Some((_, d)) = post_found.into_iter().next() {
        println!("replay: violation reproduced: {}", d);
        1
    } else if !res.infra.is_empty() {
        eprintln!("replay: infrastructure problem: {:?}", res.infra);
        2
    } else {
        println!("replay: no violation on the current tree");
        0
    }
}
