//! The DSL as the documentation describes it: operator spellings, arities, wrapper capability;
//! a structure type that is rendered to text; and the view of a parsed chain that the round
//! trip compares with. Nothing here is derived from join_impl's tables.

use join_impl::chain::expr::{ActionExpr, ErrExpr, InitialExpr, ProcessExpr};
use join_impl::chain::group::{ApplicationType, MoveType};
use join_impl::chain::Chain;
use join_impl::JoinInputDefault;
use quote::ToTokens;

#[derive(Clone, Copy, Debug, PartialEq, Eq)]
pub enum Arity {
    Zero,
    One,
    Two,
    /// `=>[]` with optional type
    OptType,
    /// `<->` with optional four types
    OptFourTypes,
    /// `..` / `>.` member access
    Member,
}

#[derive(Clone, Copy, Debug)]
pub struct OpInfo {
    pub tok: &'static str,
    pub name: &'static str,
    pub arity: Arity,
    pub wrapper: bool,
}

pub const OPS: [OpInfo; 23] = [
    OpInfo { tok: "|>", name: "Map", arity: Arity::One, wrapper: true },
    OpInfo { tok: "=>", name: "AndThen", arity: Arity::One, wrapper: true },
    OpInfo { tok: "?>", name: "Filter", arity: Arity::One, wrapper: true },
    OpInfo { tok: "..", name: "Dot", arity: Arity::Member, wrapper: false },
    OpInfo { tok: ">.", name: "Dot", arity: Arity::Member, wrapper: false },
    OpInfo { tok: "->", name: "Then", arity: Arity::One, wrapper: false },
    OpInfo { tok: "<|", name: "Or", arity: Arity::One, wrapper: false },
    OpInfo { tok: "<=", name: "OrElse", arity: Arity::One, wrapper: true },
    OpInfo { tok: "!>", name: "MapErr", arity: Arity::One, wrapper: true },
    OpInfo { tok: "=>[]", name: "Collect", arity: Arity::OptType, wrapper: false },
    OpInfo { tok: ">@>", name: "Chain", arity: Arity::One, wrapper: false },
    OpInfo { tok: "?|>@", name: "FindMap", arity: Arity::One, wrapper: true },
    OpInfo { tok: "?|>", name: "FilterMap", arity: Arity::One, wrapper: true },
    OpInfo { tok: "|n>", name: "Enumerate", arity: Arity::Zero, wrapper: false },
    OpInfo { tok: "?&!>", name: "Partition", arity: Arity::One, wrapper: true },
    OpInfo { tok: "^^>", name: "Flatten", arity: Arity::Zero, wrapper: false },
    OpInfo { tok: "^@", name: "Fold", arity: Arity::Two, wrapper: false },
    OpInfo { tok: "?^@", name: "TryFold", arity: Arity::Two, wrapper: false },
    OpInfo { tok: "?@", name: "Find", arity: Arity::One, wrapper: true },
    OpInfo { tok: ">^>", name: "Zip", arity: Arity::One, wrapper: false },
    OpInfo { tok: "<->", name: "Unzip", arity: Arity::OptFourTypes, wrapper: false },
    OpInfo { tok: "??", name: "Inspect", arity: Arity::One, wrapper: true },
    OpInfo { tok: "<<<", name: "UNWRAP", arity: Arity::Zero, wrapper: false },
];

pub const UNWRAP: usize = 22;

#[derive(Clone, Debug, PartialEq)]
pub struct SAct {
    pub op: usize,
    pub deferred: bool,
    pub wrap: bool,
    pub operands: Vec<String>,
    /// whitespace before the operator / between operator and operand (false: glue when safe)
    pub space_before: bool,
    pub space_after: bool,
}

#[derive(Clone, Debug, PartialEq)]
pub struct SBranch {
    pub let_name: Option<(String, bool)>,
    pub init: String,
    pub acts: Vec<SAct>,
    /// separator written after the branch: 0 ",", 1 ", " + newline, 2 nothing (only legal after a
    /// trailing block or at the very end)
    pub sep: u8,
}

#[derive(Clone, Debug, PartialEq)]
pub struct SHandler {
    pub kind: &'static str,
    pub expr: String,
    pub pos: usize,
    pub comma: bool,
}

#[derive(Clone, Debug, PartialEq)]
pub struct SProg {
    pub options: Vec<(String, String)>,
    pub branches: Vec<SBranch>,
    pub handler: Option<SHandler>,
    pub trailing_comma: bool,
}

fn ends_with_block(b: &SBranch) -> bool {
    // a branch whose last operand is a `{..}` block may omit the comma
    let last = match b.acts.last() {
        Some(a) => {
            if a.wrap || a.operands.is_empty() {
                return false;
            }
            a.operands.last().unwrap().as_str()
        }
        None => b.init.as_str(),
    };
    let t = last.trim();
    t.starts_with('{') && t.ends_with('}') && syn::parse_str::<syn::Expr>(t).map(|e| matches!(e, syn::Expr::Block(_))).unwrap_or(false)
}

fn flat_tokens(s: &str) -> Option<Vec<String>> {
    fn walk(ts: proc_macro2::TokenStream, out: &mut Vec<String>) {
        for t in ts {
            match t {
                proc_macro2::TokenTree::Group(g) => {
                    out.push(format!("{:?}(", g.delimiter()));
                    walk(g.stream(), out);
                    out.push(")".into());
                }
                other => out.push(other.to_string()),
            }
        }
    }
    let ts: proc_macro2::TokenStream = s.parse().ok()?;
    let mut v = Vec::new();
    walk(ts, &mut v);
    Some(v)
}

/// gluing two pieces without whitespace is allowed when it does not change the tokens (`x|>f`,
/// `Vec<u8>..len()`, `a?=>f`), i.e. lexing the concatenation gives the tokens of the two pieces
fn glue_ok(left: &str, right: &str) -> bool {
    // only the last piece of the text so far matters: take its tail after the last whitespace
    let tail = left.rsplit(char::is_whitespace).next().unwrap_or(left);
    if tail.is_empty() || right.is_empty() {
        return true;
    }
    match (flat_tokens(tail), flat_tokens(right), flat_tokens(&format!("{}{}", tail, right))) {
        (Some(a), Some(b), Some(c)) => {
            let mut ab = a;
            ab.extend(b);
            ab == c
        }
        // the tail may be cut inside a group / literal: be conservative
        _ => false,
    }
}

impl SProg {
    pub fn render(&self) -> String {
        let mut s = String::new();
        for (k, v) in &self.options {
            s.push_str(&format!("{}({}) ", k, v));
        }
        let n = self.branches.len();
        let handler_text = |h: &SHandler| format!("{} => {}{}", h.kind, h.expr, if h.comma { ", " } else { " " });
        for (i, b) in self.branches.iter().enumerate() {
            if let Some(h) = &self.handler {
                if h.pos == i {
                    s.push_str(&handler_text(h));
                }
            }
            if let Some((name, m)) = &b.let_name {
                s.push_str(&format!("let {}{} = ", if *m { "mut " } else { "" }, name));
            }
            s.push_str(&b.init);
            for a in &b.acts {
                let info = &OPS[a.op];
                let mut optext = String::new();
                if a.deferred {
                    optext.push('~');
                }
                optext.push_str(info.tok);
                if a.space_before || !glue_ok(&s, &optext) {
                    s.push(' ');
                }
                s.push_str(&optext);
                if a.wrap {
                    s.push_str(" >>>");
                }
                if !a.operands.is_empty() {
                    let joined = a.operands.join(", ");
                    if a.space_after || !glue_ok(&s, &joined) {
                        s.push(' ');
                    }
                    s.push_str(&joined);
                }
            }
            let last = i + 1 == n;
            let handler_follows_at_end = last && self.handler.as_ref().map(|h| h.pos >= n).unwrap_or(false);
            let need_comma = !(last && !handler_follows_at_end);
            if need_comma {
                // the comma after a trailing block may be omitted only in front of a handler (in front
                // of another branch `{..} y` is one - invalid - expression)
                let handler_next = self.handler.as_ref().map(|h| h.pos == i + 1 || (last && h.pos >= n)).unwrap_or(false);
                if b.sep == 2 && handler_next && ends_with_block(b) {
                    s.push(' ');
                } else {
                    s.push_str(if b.sep == 1 { ",\n" } else { ", " });
                }
            } else if self.trailing_comma {
                s.push(',');
            }
        }
        if let Some(h) = &self.handler {
            if h.pos >= n {
                s.push_str(&handler_text(h));
            }
        }
        s
    }
}

// ----------------------------------------------------------------------------- parsed view

#[derive(Clone, Debug, PartialEq)]
pub struct PMember {
    pub name: String,
    pub deferred: bool,
    pub wrap: bool,
    pub unwrap: bool,
    pub operands: Vec<String>,
}

#[derive(Clone, Debug, PartialEq)]
pub struct PBranch {
    pub let_name: Option<(String, bool)>,
    pub members: Vec<PMember>,
}

/// token string of an expression, outer parentheses removed (whether the parser keeps, adds or
/// drops a pair of parentheses around a whole operand is not part of the property)
pub fn strip_parens(mut e: syn::Expr) -> syn::Expr {
    loop {
        match e {
            syn::Expr::Paren(p) if p.attrs.is_empty() => e = *p.expr,
            other => return other,
        }
    }
}

pub fn norm_expr(s: &str) -> String {
    match syn::parse_str::<syn::Expr>(s) {
        Ok(e) => strip_parens(e).to_token_stream().to_string(),
        Err(_) => format!("<unparsable expr: {}>", s),
    }
}

pub fn norm_type(s: &str) -> String {
    match syn::parse_str::<syn::Type>(s) {
        Ok(e) => e.to_token_stream().to_string(),
        Err(_) => format!("<unparsable type: {}>", s),
    }
}

fn exprs(v: &[syn::Expr]) -> Vec<String> {
    v.iter().map(|e| strip_parens(e.clone()).to_token_stream().to_string()).collect()
}

pub fn view_action(e: &ActionExpr) -> (String, Vec<String>) {
    match e {
        ActionExpr::Initial(InitialExpr::Single(x)) => ("Initial".into(), exprs(x)),
        ActionExpr::Err(ErrExpr::Or(x)) => ("Or".into(), exprs(x)),
        ActionExpr::Err(ErrExpr::OrElse(x)) => ("OrElse".into(), exprs(x)),
        ActionExpr::Err(ErrExpr::MapErr(x)) => ("MapErr".into(), exprs(x)),
        ActionExpr::Process(p) => match p {
            ProcessExpr::Map(x) => ("Map".into(), exprs(x)),
            ProcessExpr::Dot(x) => ("Dot".into(), exprs(x)),
            ProcessExpr::Filter(x) => ("Filter".into(), exprs(x)),
            ProcessExpr::Inspect(x) => ("Inspect".into(), exprs(x)),
            ProcessExpr::Then(x) => ("Then".into(), exprs(x)),
            ProcessExpr::AndThen(x) => ("AndThen".into(), exprs(x)),
            ProcessExpr::Chain(x) => ("Chain".into(), exprs(x)),
            ProcessExpr::Flatten => ("Flatten".into(), vec![]),
            ProcessExpr::Collect(t) => ("Collect".into(), t.iter().flat_map(|a| a.iter()).map(|t| t.to_token_stream().to_string()).collect()),
            ProcessExpr::Enumerate => ("Enumerate".into(), vec![]),
            ProcessExpr::FilterMap(x) => ("FilterMap".into(), exprs(x)),
            ProcessExpr::Find(x) => ("Find".into(), exprs(x)),
            ProcessExpr::Fold(x) => ("Fold".into(), exprs(x)),
            ProcessExpr::FindMap(x) => ("FindMap".into(), exprs(x)),
            ProcessExpr::Partition(x) => ("Partition".into(), exprs(x)),
            ProcessExpr::TryFold(x) => ("TryFold".into(), exprs(x)),
            ProcessExpr::Unzip(t) => ("Unzip".into(), t.iter().flat_map(|a| a.iter()).map(|t| t.to_token_stream().to_string()).collect()),
            ProcessExpr::Zip(x) => ("Zip".into(), exprs(x)),
            ProcessExpr::UNWRAP => ("UNWRAP".into(), vec![]),
        },
    }
}

pub fn view(parsed: &JoinInputDefault) -> Vec<PBranch> {
    parsed
        .branches
        .iter()
        .map(|c| PBranch {
            let_name: c.id().map(|p| (p.ident.to_string(), p.mutability.is_some())),
            members: c
                .members()
                .iter()
                .map(|m| {
                    let (name, operands) = view_action(m.expr());
                    PMember {
                        name,
                        deferred: *m.application_type() == ApplicationType::Deferred,
                        wrap: *m.move_type() == MoveType::Wrap,
                        unwrap: *m.move_type() == MoveType::Unwrap,
                        operands,
                    }
                })
                .collect(),
        })
        .collect()
}

/// what the documentation says the structure should parse to
pub fn expected(p: &SProg) -> Vec<PBranch> {
    p.branches
        .iter()
        .map(|b| {
            let mut members = vec![PMember { name: "Initial".into(), deferred: false, wrap: false, unwrap: false, operands: vec![norm_expr(&b.init)] }];
            for a in &b.acts {
                let info = &OPS[a.op];
                let operands = if a.wrap {
                    vec![] // the placeholder closure is not compared
                } else {
                    match info.arity {
                        Arity::OptType | Arity::OptFourTypes => a.operands.iter().map(|t| norm_type(t)).collect(),
                        _ => a.operands.iter().map(|e| norm_expr(e)).collect(),
                    }
                };
                members.push(PMember { name: info.name.into(), deferred: a.deferred, wrap: a.wrap, unwrap: a.op == UNWRAP, operands });
            }
            PBranch { let_name: b.let_name.clone(), members }
        })
        .collect()
}

pub fn compare(exp: &[PBranch], got: &[PBranch]) -> Option<String> {
    if exp.len() != got.len() {
        return Some(format!("{} branches parsed, {} written", got.len(), exp.len()));
    }
    for (i, (e, g)) in exp.iter().zip(got.iter()).enumerate() {
        if e.let_name != g.let_name {
            return Some(format!("branch {}: let pattern {:?}, written {:?}", i, g.let_name, e.let_name));
        }
        if e.members.len() != g.members.len() {
            return Some(format!(
                "branch {}: {} members parsed [{}], {} written [{}]",
                i,
                g.members.len(),
                g.members.iter().map(|m| m.name.as_str()).collect::<Vec<_>>().join(" "),
                e.members.len(),
                e.members.iter().map(|m| m.name.as_str()).collect::<Vec<_>>().join(" ")
            ));
        }
        for (j, (em, gm)) in e.members.iter().zip(g.members.iter()).enumerate() {
            if em.name != gm.name || em.deferred != gm.deferred || em.wrap != gm.wrap || em.unwrap != gm.unwrap {
                return Some(format!(
                    "branch {} member {}: parsed {}{}{}, written {}{}{}",
                    i,
                    j,
                    if gm.deferred { "~" } else { "" },
                    gm.name,
                    if gm.wrap { " >>>" } else { "" },
                    if em.deferred { "~" } else { "" },
                    em.name,
                    if em.wrap { " >>>" } else { "" }
                ));
            }
            if !em.wrap && em.operands != gm.operands {
                return Some(format!("branch {} member {} ({}): operands parsed {:?}, written {:?}", i, j, em.name, gm.operands, em.operands));
            }
        }
    }
    None
}
