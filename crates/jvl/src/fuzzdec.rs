//! Byte decoders shared by the libFuzzer targets (engine F) and their replay: bytes become a token
//! soup (C15) or a chain structure (C14) through fixed, total mappings, so every fuzzer input is a
//! meaningful case and a saved artifact replays without the fuzzer.

use crate::c14;
use crate::c15::{self, Outcome};
use crate::dsl::*;

/// C15: first byte = configuration; then tokens of the DSL vocabulary and group open / close marks
pub fn soup_from_bytes(data: &[u8]) -> (String, usize) {
    if data.is_empty() {
        return (String::new(), 0);
    }
    let ci = (data[0] % 8) as usize;
    let mut out = String::new();
    let mut stack: Vec<char> = Vec::new();
    for &b in data[1..].iter().take(200) {
        match b {
            0..=199 => {
                out.push_str(c15::VOCAB[b as usize % c15::VOCAB.len()]);
                out.push(' ');
            }
            200..=229 => {
                if stack.len() < 4 {
                    let (o, c) = [('(', ')'), ('[', ']'), ('{', '}')][(b as usize - 200) % 3];
                    out.push(o);
                    out.push(' ');
                    stack.push(c);
                }
            }
            _ => {
                if let Some(c) = stack.pop() {
                    out.push(c);
                    out.push(' ');
                }
            }
        }
    }
    while let Some(c) = stack.pop() {
        out.push(c);
        out.push(' ');
    }
    (out, ci)
}

/// verdict of the C15 oracle on one input: Some(detail) = violation
pub fn c15_verdict(text: &str, ci: usize) -> Option<String> {
    let (o, _) = c15::expand(text, ci);
    match o {
        Outcome::Panic(m) => Some(format!("internal panic: {}", m)),
        Outcome::InvalidOutput(m) => {
            if c15::let_name_is_keyword(text) {
                None // open known finding
            } else {
                Some(format!("accepted input expands to invalid code: {}", m))
            }
        }
        _ => None,
    }
}

/// C14: bytes to a structure (1-3 branches, up to 8 actions each, operands from the pools)
pub fn sprog_from_bytes(data: &[u8]) -> Option<SProg> {
    let mut it = data.iter().copied();
    let mut next = || it.next();
    let nb = 1 + (next()? % 3) as usize;
    let pool = |b: u8| -> String {
        let all: Vec<&str> = c14::PLAIN.iter().chain(c14::ADVERSARIAL.iter()).chain(c14::KEYWORDISH.iter()).chain(c14::BRACKET_LEADING.iter()).copied().collect();
        all[b as usize % all.len()].to_string()
    };
    let mut branches = Vec::new();
    for bi in 0..nb {
        let flags = next()?;
        let init = pool(next()?);
        let na = (next()? % 9) as usize;
        let mut raw = Vec::new();
        for _ in 0..na {
            let op = (next()? % 23) as usize;
            let f = next()?;
            let e1 = pool(next()?);
            let e2 = pool(next().unwrap_or(0));
            raw.push(c14::RawAct::new(op, f & 1 == 1, f & 2 == 2, e1, e2, c14::MEMBERS[(f >> 2) as usize % c14::MEMBERS.len()].to_string(), (0..4).map(|k| c14::TYPES[((f >> 3) as usize + k) % c14::TYPES.len()].to_string()).collect(), f & 64 == 64, f & 128 == 0, f & 16 == 0));
        }
        let ln = if flags & 3 == 3 { Some((format!("n{}", bi), flags & 4 == 4)) } else { None };
        branches.push(c14::fix_branch(ln, init, raw, (flags >> 4) % 3));
    }
    let hb = next().unwrap_or(0);
    let handler = if hb % 4 == 0 { Some(SHandler { kind: ["map", "then", "and_then"][(hb as usize / 4) % 3], expr: pool(next().unwrap_or(1)), pos: (hb as usize / 16) % (nb + 1), comma: true }) } else { None };
    Some(SProg { options: vec![], branches, handler, trailing_comma: hb & 2 == 2 })
}

/// verdict of the C14 oracle: Some(detail) = violation (open known findings excluded)
pub fn c14_verdict(p: &SProg) -> Option<String> {
    match c14::check_one(p) {
        Ok(()) => None,
        Err(d) => {
            if c14::known_signature_of(p, &d).is_some() {
                None
            } else {
                Some(d)
            }
        }
    }
}
