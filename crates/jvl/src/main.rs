//! Engine L: in-process property-based testing over join_impl (parser + generator), which is
//! linked by path from the repository, so cargo rebuilds it whenever /repo changed.
use jvl::{c14, c15, c20, synt};

fn usage() -> ! {
    eprintln!("usage: jvl check <C14|C15|C20|C10|C13|C16> [--tier quick|thorough] [--seed N] | jvl replay <file>");
    std::process::exit(2)
}

fn main() {
    let args: Vec<String> = std::env::args().collect();
    if args.len() < 3 {
        usage();
    }
    if args[1] == "c20-child" {
        std::panic::set_hook(Box::new(|_| {}));
        std::process::exit(jvl::c20::child_main());
    }
    if args[1] == "replay-fuzz" {
        std::panic::set_hook(Box::new(|_| {}));
    }
    let mut tier = std::env::var("VERIF_TIER").unwrap_or_else(|_| "quick".to_string());
    let mut seed: u64 = std::env::var("VERIF_SEED").ok().and_then(|s| s.parse().ok()).unwrap_or(1);
    let mut i = 3;
    while i < args.len() {
        match args[i].as_str() {
            "--tier" => {
                tier = args[i + 1].clone();
                i += 2;
            }
            "--seed" => {
                seed = args[i + 1].parse().unwrap_or(1);
                i += 2;
            }
            _ => usage(),
        }
    }
    if tier != "quick" && tier != "thorough" {
        tier = "quick".into();
    }
    // expansions of malformed input may panic by design of the check: keep stderr quiet
    std::panic::set_hook(Box::new(|_| {}));
    if args[1] == "check" && args[2] != "C15" {
        // C15 has its own watchdog (a stall is its subject); everywhere else an expansion that stalls
        // for 3 minutes ends the check as inconclusive instead of blocking it for ever
        let what = args[2].clone();
        std::thread::spawn(move || {
            use std::sync::atomic::Ordering;
            let mut last = jvl::c15::HEARTBEAT.load(Ordering::Relaxed);
            let mut idle = 0;
            loop {
                std::thread::sleep(std::time::Duration::from_secs(10));
                let now = jvl::c15::HEARTBEAT.load(Ordering::Relaxed);
                if now == last {
                    idle += 1;
                    // C13 / C16 feed option prefixes and handlers that must be accepted or rejected: an input on
                    // which the expansion does not come back (30 s here, 60 s again in a fresh process) is
                    // neither - a violation with that input as the replay file
                    if idle == 3 && (what == "C13" || what == "C16") {
                        let (text, ci) = jvl::c15::CURRENT.lock().map(|c| c.clone()).unwrap_or_default();
                        if !text.is_empty() {
                            let path = jvl::evid::write_replay(&what, &serde_json::json!({"property": what, "engine": "L-c15", "input": text, "config": ci, "kind": "hang", "must_reject": false, "detail": "the expansion of this input does not terminate (30 s in the run, 60 s again in a fresh process): the input is neither accepted nor rejected", "seed": 0, "tier": "quick"}));
                            let confirmed = std::env::current_exe().ok().and_then(|exe| std::process::Command::new(exe).arg("replay").arg(&path).stdout(std::process::Stdio::null()).stderr(std::process::Stdio::null()).status().ok()).map(|st| st.code() == Some(1)).unwrap_or(false);
                            if confirmed {
                                jvl::evid::print_violation(&what, &path);
                                std::process::exit(1);
                            }
                            let _ = std::fs::remove_file(&path);
                        }
                    }
                    if idle >= 18 {
                        eprintln!("{}: no expansion finished for 180 s - the parser or generator seems to be stuck on an input (inconclusive)", what);
                        std::process::exit(2);
                    }
                } else {
                    idle = 0;
                    last = now;
                }
            }
        });
    }
    let code = match args[1].as_str() {
        "check" => match args[2].as_str() {
            "C14" => c14::run(&tier, seed),
            "C15" => c15::run(&tier, seed),
            "C20" => c20::run(&tier, seed),
            "C10" | "C13" | "C16" => synt::run(&args[2], &tier, seed),
            _ => usage(),
        },
        "replay-fuzz" => {
            // a libFuzzer artifact: decode it like the target does and re-judge
            let data = std::fs::read(&args[2]).expect("artifact");
            let name = args[2].clone();
            if name.contains("C14-fuzz") {
                match jvl::fuzzdec::sprog_from_bytes(&data) {
                    Some(p) => match jvl::fuzzdec::c14_verdict(&p) {
                        Some(d) => {
                            println!("replay: violation reproduced on `{}`: {}", p.render(), d);
                            1
                        }
                        None => {
                            println!("replay: `{}` parses as written", p.render());
                            0
                        }
                    },
                    None => 0,
                }
            } else {
                let (text, ci) = jvl::fuzzdec::soup_from_bytes(&data);
                match jvl::fuzzdec::c15_verdict(&text, ci) {
                    Some(d) => {
                        println!("replay: violation reproduced on `{}` (config {}): {}", text, ci, d);
                        1
                    }
                    None => {
                        println!("replay: `{}` is handled cleanly", text);
                        0
                    }
                }
            }
        }
        "replay" => {
            let text = std::fs::read_to_string(&args[2]).expect("replay file");
            let v: serde_json::Value = serde_json::from_str(&text).expect("replay json");
            match v["engine"].as_str() {
                Some("L-c14") => c14::replay(&v),
                Some("L-c15") => c15::replay(&v),
                Some("L-c20") => c20::replay(&v),
                Some("L-synt") => synt::replay(&v),
                _ => 2,
            }
        }
        _ => usage(),
    };
    std::process::exit(code);
}
