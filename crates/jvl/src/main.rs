//! Engine L: in-process property-based testing over join_impl (parser + generator), which is
//! linked by path from the repository, so cargo rebuilds it whenever /repo changed.
mod c14;
mod c15;
mod c20;
mod dsl;
mod evid;
mod synt;

use proptest::test_runner::{Config, RngAlgorithm, TestRng, TestRunner};

pub fn seed32(seed: u64, salt: u64) -> [u8; 32] {
    let mut s = [0u8; 32];
    let mut x = seed ^ salt.wrapping_mul(0x9E37_79B9_7F4A_7C15);
    for i in 0..4 {
        x ^= x >> 31;
        x = x.wrapping_mul(0xBF58_476D_1CE4_E5B9).rotate_left(17).wrapping_add(0x94D0_49BB_1331_11EB + i as u64);
        s[i * 8..i * 8 + 8].copy_from_slice(&x.to_le_bytes());
    }
    s
}

pub fn new_runner(seed: u64, salt: u64, cases: u32) -> TestRunner {
    let cfg = Config { cases, failure_persistence: None, max_shrink_iters: 20_000, ..Config::default() };
    TestRunner::new_with_rng(cfg, TestRng::from_seed(RngAlgorithm::ChaCha, &seed32(seed, salt)))
}

fn usage() -> ! {
    eprintln!("usage: jvl check <C14|C15|C20|C10|C13|C16> [--tier quick|thorough] [--seed N] | jvl replay <file>");
    std::process::exit(2)
}

fn main() {
    let args: Vec<String> = std::env::args().collect();
    if args.len() < 3 {
        usage();
    }
    let mut tier = std::env::var("VERIF_TIER").unwrap_or_else(|_| "quick".to_string());
    let mut seed: u64 = std::env::var("VERIF_SEED").ok().and_then(|s| s.parse().ok()).unwrap_or(1);
    let mut i = 3;
    while i < args.len() {
        match args[i].as_str() {
            "--tier" => {
                tier = args[i + 1].clone();
                i += 2;
            }
            "--seed" => {
                seed = args[i + 1].parse().unwrap_or(1);
                i += 2;
            }
            _ => usage(),
        }
    }
    if tier != "quick" && tier != "thorough" {
        tier = "quick".into();
    }
    // expansions of malformed input may panic by design of the check: keep stderr quiet
    std::panic::set_hook(Box::new(|_| {}));
    let code = match args[1].as_str() {
        "check" => match args[2].as_str() {
            "C14" => c14::run(&tier, seed),
            "C15" => c15::run(&tier, seed),
            "C20" => c20::run(&tier, seed),
            "C10" | "C13" | "C16" => synt::run(&args[2], &tier, seed),
            _ => usage(),
        },
        "replay" => {
            let text = std::fs::read_to_string(&args[2]).expect("replay file");
            let v: serde_json::Value = serde_json::from_str(&text).expect("replay json");
            match v["engine"].as_str() {
                Some("L-c14") => c14::replay(&v),
                Some("L-c15") => c15::replay(&v),
                Some("L-c20") => c20::replay(&v),
                Some("L-synt") => synt::replay(&v),
                _ => 2,
            }
        }
        _ => usage(),
    };
    std::process::exit(code);
}
