fn main(){}
