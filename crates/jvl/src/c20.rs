//! C20: expansion is a pure function of the macro input - histories of repeated, reordered and
//! concurrent expansions within one process (also from parse results kept while other inputs were
//! parsed) must reproduce the first output token for token.

use crate::c14;
use crate::c15::{cfg, CONFIGS};
use crate::dsl::*;
use crate::evid::{self, Evidence};
use join_impl::{generate_join, JoinInputDefault};
use proptest::prelude::*;
use proptest::test_runner::{TestCaseError, TestError};
use serde_json::json;
use std::cell::RefCell;
use std::collections::{BTreeMap, HashMap, HashSet};
use std::panic::{catch_unwind, AssertUnwindSafe};
use std::str::FromStr;
use std::sync::{Arc, Barrier};

/// expansion as a string; errors and panics are outcomes too (they must be reproducible as well)
pub fn expand_string(text: &str, ci: usize) -> String {
    let r = catch_unwind(AssertUnwindSafe(|| {
        let ts = match proc_macro2::TokenStream::from_str(text) {
            Ok(t) => t,
            Err(e) => return format!("LEX-ERROR {}", e),
        };
        crate::c15::HEARTBEAT.fetch_add(1, std::sync::atomic::Ordering::Relaxed);
        match syn::parse2::<JoinInputDefault>(ts) {
            Err(e) => format!("SYN-ERROR {}", e),
            Ok(p) => generate_join(&p, cfg(ci)).to_string(),
        }
    }));
    match r {
        Ok(s) => s,
        Err(p) => format!("PANIC {}", p.downcast_ref::<String>().cloned().or_else(|| p.downcast_ref::<&str>().map(|s| s.to_string())).unwrap_or_default()),
    }
}

#[derive(Clone, Debug)]
pub struct History {
    pub pool: Vec<String>,
    /// (pool index, config index)
    pub seq: Vec<(usize, usize)>,
    pub threads: usize,
}

fn option_prefix() -> impl Strategy<Value = String> {
    proptest::collection::vec(
        prop_oneof![
            Just("futures_crate_path(::fx)".to_string()),
            Just("futures_crate_path(::other::futures)".to_string()),
            Just("custom_joiner(my_joiner)".to_string()),
            Just("custom_joiner(jm!)".to_string()),
            Just("transpose_results(false)".to_string()),
            Just("transpose_results(true)".to_string()),
            Just("lazy_branches(true)".to_string()),
            Just("lazy_branches(false)".to_string()),
        ],
        0..3,
    )
    .prop_map(|v| {
        // at most one of each option
        let mut seen = HashSet::new();
        v.into_iter().filter(|o| seen.insert(o.split('(').next().unwrap().to_string())).collect::<Vec<_>>().join(" ")
    })
}

fn wide_prog() -> impl Strategy<Value = String> {
    // many branches with a few steps: exercises every per-branch / per-step name
    // (two-digit branch counts in a third of them: positional names and indices of 10 and above)
    // (and a few very wide / long ones: more than 64 distinct positional names in one expansion)
    (prop_oneof![4 => 1usize..12, 2 => 10usize..27, 1 => 27usize..44], proptest::collection::vec((prop_oneof![3 => 0usize..4, 1 => 4usize..9], 0usize..3), 44), proptest::option::weighted(0.3, 0usize..3)).prop_map(|(n, shape, h)| {
        let mut parts = Vec::new();
        for b in 0..n {
            let (steps, extra) = shape[b];
            let mut s = format!("v{}", b);
            for k in 0..extra {
                s.push_str(&format!(" |> f{}", k));
            }
            for k in 0..steps {
                s.push_str(&format!(" ~=> {{ let c = {}; move |x| g(x, c) }}", k));
            }
            parts.push(s);
        }
        if let Some(k) = h {
            parts.push(format!("{} => |a| a", ["map", "then", "and_then"][k]));
        }
        parts.join(", ")
    })
}

fn input() -> impl Strategy<Value = String> {
    // (a third of the pool is not a plain valid program: token soups of the C15 vocabulary, single-fault
    // mutations of valid programs, valid programs with a stray `~` - whatever a
    // rejected or odd invocation leaves behind must not reach the next expansion)
    (option_prefix(), prop_oneof![2 => c14::sprog().prop_map(|p| p.render()), 2 => wide_prog(), 1 => crate::c15::soup(), 1 => crate::c15::faulty()]).prop_map(|(o, p)| if o.is_empty() { p } else { format!("{} {}", o, p) })
}

pub fn history() -> impl Strategy<Value = History> {
    (proptest::collection::vec(input(), 2..8), proptest::collection::vec((any::<u16>(), 0usize..8), 2..40), 1usize..9).prop_map(|(pool, raw, threads)| {
        let n = pool.len();
        let seq = raw.into_iter().map(|(i, c)| ((i as usize * n) >> 16, c)).collect();
        History { pool, seq, threads }
    })
}

/// Runs the history; returns Err(detail) on the first disagreement with the first output.
pub fn run_history(h: &History) -> Result<(), String> {
    // sequential pass on this thread: the table input -> first output, later outputs compared
    let mut table: HashMap<(usize, usize), String> = HashMap::new();
    for (k, (i, c)) in h.seq.iter().enumerate() {
        let out = expand_string(&h.pool[*i], *c);
        match table.get(&(*i, *c)) {
            None => {
                table.insert((*i, *c), out);
            }
            Some(first) => {
                if *first != out {
                    return Err(format!("sequential: expansion #{} of input {} (config {:?}) differs from its first expansion", k, i, CONFIGS[*c]));
                }
            }
        }
    }
    // decoupled pass: every input of the pool is parsed first, the kept parse results are expanded
    // afterwards in history order - the output may depend on the parsed input and the configuration
    // only, not on what was parsed last on this thread
    let parsed: Vec<Option<JoinInputDefault>> = h
        .pool
        .iter()
        .map(|text| {
            crate::c15::HEARTBEAT.fetch_add(1, std::sync::atomic::Ordering::Relaxed);
            catch_unwind(AssertUnwindSafe(|| proc_macro2::TokenStream::from_str(text).ok().and_then(|ts| syn::parse2::<JoinInputDefault>(ts).ok()))).ok().flatten()
        })
        .collect();
    for (k, (i, c)) in h.seq.iter().enumerate() {
        if let Some(p) = &parsed[*i] {
            let out = match catch_unwind(AssertUnwindSafe(|| generate_join(p, cfg(*c)).to_string())) {
                Ok(s) => s,
                Err(p) => format!("PANIC {}", p.downcast_ref::<String>().cloned().or_else(|| p.downcast_ref::<&str>().map(|s| s.to_string())).unwrap_or_default()),
            };
            if table.get(&(*i, *c)) != Some(&out) {
                return Err(format!("decoupled: expansion #{} of input {} (config {:?}) from a parse result kept while other inputs were parsed differs from its first expansion", k, i, CONFIGS[*c]));
            }
        }
    }
    // isolated pass: every (input, configuration) of the table once more on a thread of its own that has
    // expanded nothing else - what an expansion leaves behind in thread-local state must not matter
    // (every second history, chosen by its content)
    if fnv(&h.pool[0]) % 2 == 0 {
        let mut keys: Vec<(usize, usize)> = table.keys().cloned().collect();
        keys.sort();
        for (i, c) in keys {
            let text = h.pool[i].clone();
            let out = std::thread::spawn(move || expand_string(&text, c)).join().map_err(|_| "a worker thread panicked outside catch_unwind".to_string())?;
            if table.get(&(i, c)) != Some(&out) {
                return Err(format!("isolated: the expansion of input {} (config {:?}) on a fresh thread differs from its first expansion in the history", i, CONFIGS[c]));
            }
        }
    }
    if h.threads <= 1 {
        return Ok(());
    }
    // concurrent pass: fresh threads behind a barrier, each takes a slice of the sequence in
    // rotated order; only strings cross threads
    let barrier = Arc::new(Barrier::new(h.threads));
    let pool = Arc::new(h.pool.clone());
    let seq = Arc::new(h.seq.clone());
    let table = Arc::new(table);
    let mut hs = Vec::new();
    for t in 0..h.threads {
        let (barrier, pool, seq, table) = (barrier.clone(), pool.clone(), seq.clone(), table.clone());
        let threads = h.threads;
        hs.push(std::thread::spawn(move || -> Result<(), String> {
            barrier.wait();
            let n = seq.len();
            for k in 0..n {
                let (i, c) = seq[(k + t * 7) % n];
                if (k + t) % threads != 0 && n > threads {
                    continue;
                }
                let out = expand_string(&pool[i], c);
                if table.get(&(i, c)) != Some(&out) {
                    return Err(format!("concurrent: thread {} of {}: expansion of input {} (config {:?}) differs from its first sequential expansion", t, threads, i, CONFIGS[c]));
                }
            }
            Ok(())
        }));
    }
    let mut res = Ok(());
    for hnd in hs {
        match hnd.join() {
            Ok(Ok(())) => {}
            Ok(Err(e)) => res = Err(e),
            Err(_) => res = Err("a worker thread panicked outside catch_unwind".to_string()),
        }
    }
    res
}

fn fnv(s: &str) -> u64 {
    s.bytes().fold(0xcbf29ce484222325u64, |a, b| (a ^ b as u64).wrapping_mul(0x100000001b3))
}

/// child process: expands the sequence given on stdin in order, prints one hash per expansion
pub fn child_main() -> i32 {
    let mut text = String::new();
    use std::io::Read;
    let _ = std::io::stdin().read_to_string(&mut text);
    let v: serde_json::Value = match serde_json::from_str(&text) {
        Ok(v) => v,
        Err(_) => return 2,
    };
    let pool: Vec<String> = v["pool"].as_array().map(|a| a.iter().map(|s| s.as_str().unwrap_or("").to_string()).collect()).unwrap_or_default();
    let seq: Vec<(usize, usize)> = v["seq"].as_array().map(|a| a.iter().map(|p| (p[0].as_u64().unwrap_or(0) as usize, p[1].as_u64().unwrap_or(0) as usize)).collect()).unwrap_or_default();
    let hashes: Vec<String> = seq.iter().map(|(i, c)| format!("{:x}", fnv(&expand_string(&pool[*i], *c)))).collect();
    println!("{}", json!({"hashes": hashes}));
    0
}

fn run_child(pool: &[String], seq: &[(usize, usize)]) -> Option<Vec<String>> {
    use std::io::Write;
    use std::process::{Command, Stdio};
    let exe = std::env::current_exe().ok()?;
    let mut ch = Command::new(exe).args(["c20-child", "-"]).stdin(Stdio::piped()).stdout(Stdio::piped()).stderr(Stdio::null()).spawn().ok()?;
    let input = json!({"pool": pool, "seq": seq}).to_string();
    ch.stdin.take()?.write_all(input.as_bytes()).ok()?;
    let out = ch.wait_with_output().ok()?;
    let v: serde_json::Value = serde_json::from_slice(&out.stdout).ok()?;
    Some(v["hashes"].as_array()?.iter().map(|x| x.as_str().unwrap_or("").to_string()).collect())
}

/// Order independence across processes: the same expansions in two different orders, each in a
/// fresh process (so that state set by the first expansion of a process shows), must give the same
/// output per (input, configuration).
pub fn order_independent(h: &History) -> Result<(), String> {
    let fwd = h.seq.clone();
    let mut rev = h.seq.clone();
    rev.reverse();
    let (Some(a), Some(b)) = (run_child(&h.pool, &fwd), run_child(&h.pool, &rev)) else {
        return Ok(()); // infrastructure hiccup: no verdict
    };
    let mut first: HashMap<(usize, usize), &String> = HashMap::new();
    for (k, key) in fwd.iter().enumerate() {
        first.entry(*key).or_insert(&a[k]);
    }
    for (k, key) in rev.iter().enumerate() {
        if let Some(x) = first.get(key) {
            if **x != b[k] {
                return Err(format!("the expansion of input {} (config {:?}) depends on which other invocations were expanded before it in the process (forward order vs reverse order, each in a fresh process)", key.0, CONFIGS[key.1]));
            }
        }
    }
    Ok(())
}

pub fn run(tier: &str, seed: u64) -> i32 {
    let t0 = std::time::Instant::now();
    let mut ev = Evidence::new("C20", tier, seed, "exploration");
    ev.rule = "histories: a pool of 2-7 generated inputs (structures over all operators with adversarial operands, and wide programs with up to 11 branches x 3 steps, each with 0-2 options incl. explicit futures_crate_path / custom_joiner) x the 8 configurations; a sequence of 2-39 expansions over the pool in random order with repetition, executed sequentially on one thread, then once more from parse results that were all produced up front (parsing and generating decoupled), and then again concurrently on 1-8 fresh threads started behind a barrier (each thread lexes its own token stream; only strings cross threads). Oracle: table (input, config) -> first output string; every later output, sequential or concurrent, is byte-identical (syn errors and configuration panics are outputs too); every fourth history is additionally expanded in two fresh child processes, once in the given and once in reverse order, and each (input, config) must give the same output in both - state that the first expansion of a process leaves behind would show there. Non-trivial = some (input, config) is expanded at least twice with a different input in between, or the history runs on >= 2 threads; distinct by history content".to_string();
    ev.assumptions = vec!["token-for-token identity is compared on the string form of the output token stream".into()];
    let cases: u32 = if tier == "quick" { 2_000 } else { 20_000 };
    let counts = RefCell::new((0u64, 0u64, 0u64, BTreeMap::<String, u64>::new(), Vec::<serde_json::Value>::new(), HashSet::<u64>::new()));
    let stop = RefCell::new(false);
    let mut runner = crate::new_runner(seed, 0x20, cases);
    let r = runner.run(&history(), |h| {
        if !*stop.borrow() {
            let mut c = counts.borrow_mut();
            c.0 += 1;
            c.2 += h.seq.len() as u64 * if h.threads > 1 { 2 } else { 1 };
            // non-trivial: same (input, config) twice with a different input in between, or >= 2 threads
            let mut nt = h.threads >= 2;
            for a in 0..h.seq.len() {
                for b in (a + 2)..h.seq.len() {
                    if h.seq[a] == h.seq[b] && h.seq[a + 1..b].iter().any(|x| x.0 != h.seq[a].0) {
                        nt = true;
                    }
                }
            }
            let key = h.pool.iter().chain(std::iter::once(&format!("{:?}{}", h.seq, h.threads))).fold(0xcbf29ce484222325u64, |a, s| s.bytes().fold(a, |a, b| (a ^ b as u64).wrapping_mul(0x100000001b3)));
            if nt && c.5.insert(key) {
                c.1 += 1;
                if c.4.len() < 4 && c.1 % 301 == 1 {
                    c.4.push(json!({"pool": h.pool, "sequence": h.seq.iter().take(12).collect::<Vec<_>>(), "threads": h.threads}));
                }
            }
            *c.3.entry(format!("threads={}", h.threads)).or_default() += 1;
            *c.3.entry(format!("pool={}", h.pool.len())).or_default() += 1;
        }
        run_history(&h).map_err(|d| {
            *stop.borrow_mut() = true;
            TestCaseError::fail(d)
        })?;
        // every fourth history also in two fresh processes, forward and reverse
        let k = counts.borrow().0;
        if k % 4 == 0 {
            if !*stop.borrow() {
                *counts.borrow_mut().3.entry("two_fresh_processes_forward_reverse".into()).or_default() += 1;
            }
            order_independent(&h).map_err(|d| {
                *stop.borrow_mut() = true;
                TestCaseError::fail(d)
            })?;
        }
        Ok(())
    });
    let c = counts.into_inner();
    ev.evaluations = c.0;
    ev.nontrivial = c.1;
    ev.extra.insert("expansions".into(), json!(c.2));
    ev.classes = c.3;
    ev.samples = c.4;
    let mut code = 0;
    if let Err(TestError::Fail(reason, h)) = r {
        ev.violations = 1;
        let path = evid::write_replay(
            "C20",
            &json!({"property": "C20", "engine": "L-c20", "pool": h.pool, "seq": h.seq, "threads": h.threads, "detail": reason.message(), "seed": seed, "tier": tier}),
        );
        evid::print_violation("C20", &path);
        code = 1;
    }
    ev.write(t0.elapsed().as_secs_f64());
    println!("C20 {}: histories={} nontrivial={} expansions={} violations={} wall={:.1}s", tier, ev.evaluations, ev.nontrivial, c.2, ev.violations, t0.elapsed().as_secs_f64());
    code
}

pub fn replay(v: &serde_json::Value) -> i32 {
    let h = History {
        pool: v["pool"].as_array().map(|a| a.iter().map(|s| s.as_str().unwrap_or("").to_string()).collect()).unwrap_or_default(),
        seq: v["seq"].as_array().map(|a| a.iter().map(|p| (p[0].as_u64().unwrap_or(0) as usize, p[1].as_u64().unwrap_or(0) as usize)).collect()).unwrap_or_default(),
        threads: v["threads"].as_u64().unwrap_or(1) as usize,
    };
    // hash-order dependent output may agree by chance: repeat the history
    for _ in 0..20 {
        if let Err(d) = run_history(&h) {
            println!("replay: violation reproduced: {}", d);
            return 1;
        }
    }
    if let Err(d) = order_independent(&h) {
        println!("replay: violation reproduced: {}", d);
        return 1;
    }
    println!("replay: all expansions identical on the current tree");
    0
}
