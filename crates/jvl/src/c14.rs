//! C14: branches split only at top-level operators that follow a complete operand.
//! Round trip: a known structure is rendered to text; the parser must recover exactly it.

use crate::dsl::*;
use crate::evid::{self, Evidence};
use join_impl::JoinInputDefault;
use proptest::prelude::*;
use proptest::test_runner::{TestCaseError, TestError};
use serde_json::json;
use std::cell::RefCell;
use std::collections::{BTreeMap, HashSet};

/// plain operands
pub const PLAIN: [&str; 10] = ["f", "x", "Some(1)", "|v| v", "g::h", "|v| v + 1", "Ok::<_, ()>(2)", "vec![1, 2].into_iter()", "self.f", "{ let c = 1; move |v| v + c }"];

/// operands that contain operator look-alikes but no top-level split point
pub const ADVERSARIAL: [&str; 82] = [
    // inside parentheses / brackets / braces
    "(a | b)",
    "(x <= y)",
    "(p > q)",
    "(0..3)",
    "(a, b)",
    "h(a, b | c, d <= e)",
    "[1, 2, 3]",
    "v[a..b]",
    "{ a <= b }",
    "{ let r = 0..3; r }",
    "{ if p <= q { a } else { b } }",
    "match k { 1 => a, _ => b }",
    "match k { A | B => 1, _ => 2 }",
    "if a <= b { x } else { y }",
    "if let Some(q) = o { q } else { 0..1 }",
    // nested macro calls with arbitrary DSL tokens
    "m!(a |> b ~=> c, <<< >>>)",
    "m![x ?|>@ y => z]",
    "m! { p -> q, r .. s ?? t }",
    "vec![a..b]",
    "println!(\"{} |> {}\", a, b)",
    // literals
    "\"a |> b ~=> c\"",
    "'~'",
    "'>'",
    "b\"<<<\"",
    "r#\"-> .. =>\"#",
    // not yet complete operands: closure return types, parameter lists, turbofish, generics
    "|v| -> u8 { v }",
    "|v: u8| -> Option<u8> { Some(v) }",
    "|a, b| a + b",
    "|(a, b), c| a",
    "|v: Vec<Vec<u8>>| v",
    "move |v| -> Result<u8, ()> { Ok(v) }",
    "f::<A, B>(x)",
    "None::<Option<Option<u8>>>",
    "Vec::<Vec<u8>>::new()",
    "HashMap::<K, V>::new",
    "<A as T<B, C>>::f",
    "Ok::<(u8, u8), ()>((1, 2))",
    // safe binary / unary operators and casts
    "a + b",
    "a && b || c",
    "a == b",
    "a != b",
    "a & b ^ c",
    "a << 2",
    "x as u8",
    "!flag",
    "-1",
    "&mut acc",
    "x?.len()",
    // more incomplete-operand prefixes and unusual but legal operand shapes
    "while a <= b { a += 1 }",
    "for i in 0..3 { g(i) }",
    "loop { break 1 }",
    "'l: loop { break 'l }",
    "async move { x }",
    "unsafe { f() }",
    "move || -> u8 { 1 }",
    "|a| |b| a + b",
    "f(|a| -> u8 { a })",
    "(|a| a)(1)",
    "r#match",
    "a?.b?.c",
    "x.await",
    "*&x",
    "&&x",
    "Foo::<{ N }>::new()",
    "x as u8 as u16",
    "<T>::f",
    "t.0.1",
    "a.b::<C, D>()",
    "-x.abs()",
    "\"\\\"|>\\\"\"",
    "'\\''",
    "0x1f",
    "1.5e3",
    "if let Some(n) = o { n } else { 0 }",
    "match r { Ok(v) if v > 0 => v, _ => 0 }",
    "S { a: 1, b: x <= y }",
    // closure parameters that spell the middle of the `|n>` operator with what follows them
    "|n| n > 3",
    "|&n| n >= 2",
    "|n| n >> 1",
    "|a, n| n > a",
    "|n: u8| n > 1",
    "move |n| n",
];

/// identifiers that are also keywords of the DSL
pub const KEYWORDISH: [&str; 4] = ["then", "map", "and_then", "n"];

/// operands that start with a bracket group (after `=>` they look like `=>[]`)
pub const BRACKET_LEADING: [&str; 3] = ["[1u8, 2][0]", "[f, g][0]", "[0u8; 4]"];

pub const MEMBERS: [&str; 8] = ["len()", "0", "iter().rev()", "unwrap_or(1)", "map(|x| x + 1)", "f::<A, B>(a, b)", "await", "get(a..b)"];
pub const TYPES: [&str; 6] = ["Vec<_>", "Vec<Vec<u8>>", "HashMap<K, Vec<V>>", "(A, B)", "[u8; 4]", "Box<dyn Fn(u8) -> u8>"];

fn expr_operand() -> impl Strategy<Value = (String, &'static str)> {
    prop_oneof![
        3 => proptest::sample::select(PLAIN.to_vec()).prop_map(|s| (s.to_string(), "plain")),
        5 => proptest::sample::select(ADVERSARIAL.to_vec()).prop_map(|s| (s.to_string(), "adversarial")),
        1 => proptest::sample::select(KEYWORDISH.to_vec()).prop_map(|s| (s.to_string(), "keywordish")),
        1 => proptest::sample::select(BRACKET_LEADING.to_vec()).prop_map(|s| (s.to_string(), "bracket_leading")),
    ]
}

#[derive(Clone, Debug)]
pub struct RawAct {
    op: usize,
    deferred: bool,
    wrap: bool,
    e1: String,
    e2: String,
    member: String,
    types: Vec<String>,
    with_types: bool,
    space_before: bool,
    space_after: bool,
}

impl RawAct {
    #[allow(clippy::too_many_arguments)]
    pub fn new(op: usize, deferred: bool, wrap: bool, e1: String, e2: String, member: String, types: Vec<String>, with_types: bool, space_before: bool, space_after: bool) -> RawAct {
        RawAct { op, deferred, wrap, e1, e2, member, types, with_types, space_before, space_after }
    }
}

fn raw_act() -> impl Strategy<Value = RawAct> {
    (
        0usize..23,
        proptest::bool::weighted(0.3),
        proptest::bool::weighted(0.3),
        expr_operand(),
        expr_operand(),
        proptest::sample::select(MEMBERS.to_vec()),
        proptest::collection::vec(proptest::sample::select(TYPES.to_vec()), 4),
        any::<bool>(),
        proptest::bool::weighted(0.7),
        proptest::bool::weighted(0.7),
    )
        .prop_map(|(op, deferred, wrap, e1, e2, member, types, with_types, sb, sa)| RawAct {
            op,
            deferred,
            wrap,
            e1: e1.0,
            e2: e2.0,
            member: member.to_string(),
            types: types.into_iter().map(|s| s.to_string()).collect(),
            with_types,
            space_before: sb,
            space_after: sa,
        })
}

/// Turns raw draws into a valid structure (construction, not rejection).
pub fn fix_branch(let_name: Option<(String, bool)>, init: String, raw: Vec<RawAct>, sep: u8) -> SBranch {
    let mut acts = Vec::new();
    let mut open = 0usize; // wrappers open in the current step
    for r in raw {
        let mut op = r.op;
        let mut deferred = r.deferred;
        if op == UNWRAP {
            if deferred || open == 0 {
                // `<<<` needs a wrapper opened in the same step
                if open == 0 {
                    op = 0;
                } else {
                    deferred = false;
                }
            }
        }
        if deferred {
            open = 0;
        }
        let info = &OPS[op];
        let wrap = r.wrap && info.wrapper;
        let operands: Vec<String> = if wrap {
            vec![]
        } else {
            match info.arity {
                Arity::Zero => vec![],
                Arity::One => vec![r.e1.clone()],
                Arity::Two => vec![r.e1.clone(), r.e2.clone()],
                Arity::Member => vec![r.member.clone()],
                Arity::OptType => {
                    if r.with_types {
                        vec![r.types[0].clone()]
                    } else {
                        vec![]
                    }
                }
                Arity::OptFourTypes => {
                    if r.with_types {
                        r.types.clone()
                    } else {
                        vec![]
                    }
                }
            }
        };
        if wrap {
            open += 1;
        }
        if op == UNWRAP {
            open -= 1;
        }
        acts.push(SAct { op, deferred, wrap, operands, space_before: r.space_before, space_after: r.space_after });
    }
    // a branch that starts `then => ..` / `map =>[]` *is* a handler by the documented syntax:
    // the identifier followed by `=>` is only an operand when it does not start a branch
    if ["then", "map", "and_then"].contains(&init.as_str()) && let_name.is_none() {
        if let Some(a) = acts.first_mut() {
            if OPS[a.op].tok.starts_with("=>") {
                a.deferred = true;
            }
        }
    }
    SBranch { let_name, init, acts, sep }
}

pub fn sprog() -> impl Strategy<Value = SProg> {
    let branch = (
        proptest::option::weighted(0.2, (proptest::sample::select(vec!["a", "name", "r0", "a", "name", "r#x", "r#kw"]), any::<bool>())),
        expr_operand(),
        proptest::collection::vec(raw_act(), 0..10),
        0u8..3,
    )
        .prop_map(|(ln, init, raw, sep)| fix_branch(ln.map(|(n, m)| (n.to_string(), m)), init.0, raw, sep));
    (
        proptest::collection::vec(branch, 1..6),
        proptest::option::weighted(0.3, (proptest::sample::select(vec!["map", "then", "and_then"]), expr_operand(), 0usize..7, any::<bool>())),
        proptest::bool::weighted(0.3),
    )
        .prop_map(|(branches, h, trailing)| {
            let n = branches.len();
            let mut branches = branches;
            // distinct let names
            for (i, b) in branches.iter_mut().enumerate() {
                if let Some((nm, _)) = &mut b.let_name {
                    // (raw identifiers too: `r#x3`, and keywords written raw)
                    *nm = if nm == "r#kw" { ["r#type", "r#match", "r#fn", "r#loop", "r#mod", "r#move"][i % 6].to_string() } else { format!("{}{}", nm, i) };
                }
            }
            let handler = h.map(|(k, e, pos, comma)| SHandler { kind: k, expr: e.0, pos: pos.min(n), comma: comma || pos < n });
            SProg { options: vec![], branches, handler, trailing_comma: trailing }
        })
}

fn nontrivial(p: &SProg) -> bool {
    let adversarial = |s: &String| ADVERSARIAL.contains(&s.as_str()) || KEYWORDISH.contains(&s.as_str()) || BRACKET_LEADING.contains(&s.as_str());
    p.branches.iter().any(|b| {
        adversarial(&b.init)
            || b.acts.iter().any(|a| a.operands.iter().any(adversarial))
            || b.acts.windows(2).any(|w| w[0].operands.is_empty())
    })
}

pub fn check_one(p: &SProg) -> Result<(), String> {
    let text = p.render();
    let exp = expected(p);
    crate::c15::HEARTBEAT.fetch_add(1, std::sync::atomic::Ordering::Relaxed);
    match syn::parse_str::<JoinInputDefault>(&text) {
        Err(e) => Err(format!("rejected: {}", e)),
        Ok(parsed) => {
            let got = view(&parsed);
            if let Some(d) = compare(&exp, &got) {
                return Err(d);
            }
            match (&p.handler, &parsed.handler) {
                (None, None) => Ok(()),
                (Some(h), Some(ph)) => {
                    let kind_ok = match h.kind {
                        "map" => ph.is_map(),
                        "then" => ph.is_then(),
                        _ => ph.is_and_then(),
                    };
                    use quote::ToTokens;
                    if !kind_ok || strip_parens(ph.extract_expr().clone()).to_token_stream().to_string() != norm_expr(&h.expr) {
                        Err(format!("handler parsed differently: written {} => {}", h.kind, h.expr))
                    } else {
                        Ok(())
                    }
                }
                (a, b) => Err(format!("handler written: {}, parsed: {}", a.is_some(), b.is_some())),
            }
        }
    }
}

/// known-finding signatures of a failing structure (None: not a known class)
pub fn known_signature(p: &SProg) -> Option<String> {
    let _ = p;
    None
}

/// every adjacent operator pair with every flag combination
pub fn all_pairs() -> Vec<SProg> {
    let mut variants: Vec<(usize, bool, bool)> = Vec::new();
    for op in 0..23 {
        for deferred in [false, true] {
            for wrap in [false, true] {
                if wrap && !OPS[op].wrapper {
                    continue;
                }
                if op == UNWRAP && deferred {
                    continue;
                }
                variants.push((op, deferred, wrap));
            }
        }
    }
    let mk = |(op, deferred, wrap): (usize, bool, bool), k: usize| RawAct {
        op,
        deferred,
        wrap,
        e1: ["f", "|v| -> u8 { v }", "(a | b)"][k % 3].to_string(),
        e2: "g".to_string(),
        member: "len()".to_string(),
        types: vec!["Vec<_>".into(), "B".into(), "Vec<A>".into(), "Vec<B>".into()],
        with_types: k % 2 == 0,
        space_before: true,
        space_after: true,
    };
    let mut out = Vec::new();
    let mut k = 0;
    for a in &variants {
        for b in &variants {
            k += 1;
            // a leading `|> >>>` makes `<<<` legal in first position
            let mut raw = vec![];
            if a.0 == UNWRAP || (b.0 == UNWRAP && !a.2) {
                raw.push(mk((0, false, true), 0));
            }
            raw.push(mk(*a, k));
            raw.push(mk(*b, k + 1));
            let br = fix_branch(None, "x".into(), raw, 0);
            // keep only pairs that survived the fix-up unchanged
            let n = br.acts.len();
            if br.acts[n - 2].op == a.0 && br.acts[n - 1].op == b.0 && br.acts[n - 2].deferred == a.1 && br.acts[n - 1].deferred == b.1 {
                out.push(SProg { options: vec![], branches: vec![br], handler: None, trailing_comma: false });
            }
        }
    }
    out
}

pub fn run(tier: &str, seed: u64) -> i32 {
    let t0 = std::time::Instant::now();
    let known = evid::Known::load();
    let mut ev = Evidence::new("C14", tier, seed, "exploration");
    ev.rule = "structures: 1-5 branches x 0-9 actions over all 23 operator spellings with/without `~`, `>>>` on the ten wrapper operators, `<<<` where a wrapper is open in the step; operands from a plain pool, an adversarial pool (operator look-alikes inside (), [], {}, macro calls, literals, closure return types / parameter lists, turbofish, nested generics, `if`/`match`, safe binary operators, casts), DSL keywords used as identifiers, bracket-leading operands; `let` patterns, handlers between / after branches, commas / omitted comma after a block / trailing comma, glued or spaced operators; plus the exhaustive table of adjacent operator pairs with all flag combinations. Oracle: the parsed chain (combinator, deferred, wrap/unwrap, operand token strings, let identifier, handler) equals the structure the text was rendered from. Non-trivial = an adversarial operand or an operand-less operator directly followed by another operator; distinct = distinct rendered text".to_string();
    ev.assumptions = vec!["syn 1.0 / proc-macro2 lexing outside a proc-macro context equals lexing inside one".into(), "excluded by construction because the property's own rule splits them legitimately: top-level `a..b`, `a <= b`, `x? > y`, `a | n > b`, `f as fn(u8) -> u8`, operands ending in `?`".into()];
    let seen: RefCell<HashSet<String>> = RefCell::new(HashSet::new());
    let counts: RefCell<(u64, u64, BTreeMap<String, u64>, Vec<serde_json::Value>)> = RefCell::new((0, 0, BTreeMap::new(), vec![]));
    let known_hits: RefCell<BTreeMap<String, (u64, String)>> = RefCell::new(BTreeMap::new());
    let failed = RefCell::new(false);
    let record = |p: &SProg| {
        if *failed.borrow() {
            return;
        }
        let text = p.render();
        let mut c = counts.borrow_mut();
        c.0 += 1;
        if seen.borrow_mut().insert(text.clone()) && nontrivial(p) {
            c.1 += 1;
            if c.3.len() < 6 && c.1 % 97 == 1 {
                c.3.push(json!(text));
            }
        }
        for b in &p.branches {
            for a in &b.acts {
                *c.2.entry(format!("op {}", OPS[a.op].tok)).or_default() += 1;
                if a.deferred {
                    *c.2.entry("flag ~".into()).or_default() += 1;
                }
                if a.wrap {
                    *c.2.entry("flag >>>".into()).or_default() += 1;
                }
            }
        }
    };
    let prop = |p: &SProg| -> Result<(), String> {
        match check_one(p) {
            Ok(()) => Ok(()),
            Err(d) => {
                if let Some(sig) = known_signature_of(p, &d) {
                    if known.open("C14", &sig).is_some() {
                        let mut k = known_hits.borrow_mut();
                        let e = k.entry(sig).or_insert((0, p.render()));
                        e.0 += 1;
                        return Ok(());
                    }
                }
                Err(d)
            }
        }
    };
    let mut violation: Option<(SProg, String)> = None;
    // ---- exhaustive adjacency table
    let pairs = all_pairs();
    ev.extra.insert("adjacent_pairs_enumerated".into(), json!(pairs.len()));
    for p in &pairs {
        record(p);
        if let Err(d) = prop(p) {
            violation = Some((p.clone(), d));
            break;
        }
    }
    // ---- random structures with shrinking
    if violation.is_none() {
        let cases = if tier == "quick" { 40_000 } else { 1_000_000 };
        let mut runner = crate::new_runner(seed, 0x14, cases);
        let r = runner.run(&sprog(), |p| {
            record(&p);
            prop(&p).map_err(|d| {
                *failed.borrow_mut() = true;
                TestCaseError::fail(d)
            })
        });
        match r {
            Ok(()) => {}
            Err(TestError::Fail(reason, p)) => {
                let d = check_one(&p).err().unwrap_or_else(|| reason.message().to_string());
                violation = Some((p, d));
            }
            Err(TestError::Abort(r)) => {
                ev.infra.push(format!("proptest aborted: {}", r));
            }
        }
    }
    let c = counts.into_inner();
    ev.evaluations = c.0;
    ev.nontrivial = c.1;
    ev.classes = c.2;
    ev.samples = c.3;
    // every open finding of this property: its canonical input is re-checked on each run; while it
    // still fails the finding is reported (with the number of generated inputs of its class)
    let hits = known_hits.into_inner();
    for e in known.entries.iter().filter(|e| e["property"] == "C14" && e["status"] == "open") {
        let sig = e["signature"].as_str().unwrap_or("").to_string();
        let canon = canonical_example(&sig);
        let still_fails = match canonical_struct(&sig) {
            Some(p) => check_one(&p).is_err(),
            None => true,
        };
        let n = hits.get(&sig).map(|h| h.0).unwrap_or(0);
        if still_fails {
            println!("KNOWN-FINDING: property=C14 {} [canonical input `{}` still fails; {} generated inputs of this class were set aside]", e["what"].as_str().unwrap_or(""), canon, n);
            ev.known_findings.push(sig);
            ev.excluded_known += n;
        }
    }
    let mut code = 0;
    if let Some((p, d)) = violation {
        ev.violations = 1;
        let path = evid::write_replay("C14", &json!({"property": "C14", "engine": "L-c14", "input": p.render(), "expected": format!("{:?}", expected(&p)), "detail": d, "seed": seed, "tier": tier}));
        evid::print_violation("C14", &path);
        code = 1;
    } else if !ev.infra.is_empty() {
        code = 2;
    }
    ev.write(t0.elapsed().as_secs_f64());
    println!("C14 {}: inputs={} nontrivial={} violations={} wall={:.1}s", tier, ev.evaluations, ev.nontrivial, ev.violations, t0.elapsed().as_secs_f64());
    code
}

/// classification of a failing case into a known-finding signature
pub fn known_signature_of(p: &SProg, _detail: &str) -> Option<String> {
    // `=>` followed by an operand that starts with a non-empty bracket group
    for b in &p.branches {
        for a in &b.acts {
            if OPS[a.op].tok == "=>" && !a.wrap && a.operands.first().map(|o| o.trim_start().starts_with('[')).unwrap_or(false) {
                return Some("and_then-followed-by-bracket-leading-operand".into());
            }
        }
    }
    // `let` in front of an initial value that is a struct literal
    for b in &p.branches {
        if b.let_name.is_some() && matches!(syn::parse_str::<syn::Expr>(&b.init), Ok(syn::Expr::Struct(_))) {
            return Some("let-before-struct-literal".into());
        }
    }
    // `let` in front of an initial value that is a top-level `&&` / `||` expression
    for b in &p.branches {
        if b.let_name.is_some() {
            if let Ok(syn::Expr::Binary(e)) = syn::parse_str::<syn::Expr>(&b.init) {
                if matches!(e.op, syn::BinOp::And(_) | syn::BinOp::Or(_)) {
                    return Some("let-before-top-level-lazy-boolean".into());
                }
            }
        }
    }
    None
}

/// the canonical input of an open finding as a structure
pub fn canonical_struct(sig: &str) -> Option<SProg> {
    let act = |op: usize, operand: &str| SAct { op, deferred: false, wrap: false, operands: vec![operand.to_string()], space_before: true, space_after: true };
    let br = |let_name: Option<(String, bool)>, init: &str, acts: Vec<SAct>| SBranch { let_name, init: init.to_string(), acts, sep: 0 };
    match sig {
        "and_then-followed-by-bracket-leading-operand" => Some(SProg { options: vec![], branches: vec![br(None, "x", vec![act(1, "[f, g][0]")])], handler: None, trailing_comma: false }),
        "let-before-top-level-lazy-boolean" => Some(SProg { options: vec![], branches: vec![br(Some(("a0".into(), false)), "a && b || c", vec![act(0, "f")])], handler: None, trailing_comma: false }),
        "let-before-struct-literal" => Some(SProg { options: vec![], branches: vec![br(Some(("a0".into(), false)), "S { a: 1, b: x <= y }", vec![act(0, "f")])], handler: None, trailing_comma: false }),
        _ => None,
    }
}

pub fn canonical_example(sig: &str) -> &'static str {
    match sig {
        "and_then-followed-by-bracket-leading-operand" => "x => [f, g][0]",
        "let-before-top-level-lazy-boolean" => "let a0 = a && b || c |> f",
        "let-before-struct-literal" => "let a0 = S { a: 1, b: x <= y } |> f",
        _ => "",
    }
}

pub fn replay(v: &serde_json::Value) -> i32 {
    let text = v["input"].as_str().unwrap_or("");
    // the saved expectation is textual; re-derive by parsing and comparing the debug view
    crate::c15::HEARTBEAT.fetch_add(1, std::sync::atomic::Ordering::Relaxed);
    match syn::parse_str::<JoinInputDefault>(text) {
        Err(e) => {
            println!("replay: input rejected: {}", e);
            1
        }
        Ok(parsed) => {
            let got = format!("{:?}", view(&parsed));
            if Some(got.as_str()) == v["expected"].as_str() {
                println!("replay: parsed as written, no violation on the current tree");
                0
            } else {
                println!("replay: violation reproduced: parsed {}", got);
                1
            }
        }
    }
}
