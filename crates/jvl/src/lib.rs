//! Engine L as a library (used by the `jvl` binary and by the libFuzzer targets in /verif/fuzz).
pub mod c14;
pub mod c15;
pub mod c20;
pub mod dsl;
pub mod evid;
pub mod fuzzdec;
pub mod synt;

use proptest::test_runner::{Config, RngAlgorithm, TestRng, TestRunner};

pub fn seed32(seed: u64, salt: u64) -> [u8; 32] {
    let mut s = [0u8; 32];
    let mut x = seed ^ salt.wrapping_mul(0x9E37_79B9_7F4A_7C15);
    for i in 0..4 {
        x ^= x >> 31;
        x = x.wrapping_mul(0xBF58_476D_1CE4_E5B9).rotate_left(17).wrapping_add(0x94D0_49BB_1331_11EB + i as u64);
        s[i * 8..i * 8 + 8].copy_from_slice(&x.to_le_bytes());
    }
    s
}

pub fn new_runner(seed: u64, salt: u64, cases: u32) -> TestRunner {
    let cfg = Config { cases, failure_persistence: None, max_shrink_iters: 20_000, ..Config::default() };
    TestRunner::new_with_rng(cfg, TestRng::from_seed(RngAlgorithm::ChaCha, &seed32(seed, salt)))
}
