//! Library-level halves of C10 (every user expression occurs exactly once in the expansion),
//! C13 (illegal handler kinds and second handlers are rejected) and C16 (options are accepted in
//! any order and subset, each at most once). These run after the engine-R half of the same check
//! and merge their coverage into the same evidence file (JVL_MERGE).

use crate::c14;
use crate::c15::{cfg, expand, Outcome, CONFIGS};
use crate::dsl::*;
use crate::evid::{self, Evidence};
use join_impl::{generate_join, JoinInputDefault};
use proptest::prelude::*;
use proptest::test_runner::{TestCaseError, TestError};
use quote::ToTokens;
use serde_json::json;
use std::cell::RefCell;
use std::collections::BTreeMap;
use std::panic::{catch_unwind, AssertUnwindSafe};
use std::str::FromStr;

// ------------------------------------------------------------------------------- C10

/// replaces every user expression of a structure by one that carries a unique marker
fn mark(p: &SProg) -> (SProg, usize) {
    let mut k = 0usize;
    let mut next = |shape: usize| -> String {
        k += 1;
        match shape % 4 {
            0 => format!("m_{}", k),
            1 => format!("|v| m_{}(v)", k),
            2 => format!("{{ m_{} }}", k),
            _ => format!("h(m_{}, 1)", k),
        }
    };
    let mut q = p.clone();
    let mut shape = 0usize;
    for b in q.branches.iter_mut() {
        shape += 1;
        b.init = next(shape);
        for a in b.acts.iter_mut() {
            let info = &OPS[a.op];
            for o in a.operands.iter_mut() {
                shape += 1;
                *o = match info.arity {
                    Arity::Member => {
                        let m = next(0);
                        format!("{}()", m)
                    }
                    Arity::OptType | Arity::OptFourTypes => {
                        let m = next(0);
                        format!("T<{}>", m)
                    }
                    _ => next(shape),
                };
            }
        }
    }
    if let Some(h) = &mut q.handler {
        h.expr = next(1);
    }
    (q, k)
}

fn count_markers(out: &str, n: usize) -> Vec<usize> {
    let mut counts = vec![0usize; n + 1];
    for tok in out.split(|c: char| !(c.is_alphanumeric() || c == '_')) {
        if let Some(rest) = tok.strip_prefix("m_") {
            if let Ok(i) = rest.parse::<usize>() {
                if i <= n {
                    counts[i] += 1;
                }
            }
        }
    }
    counts
}

fn c10(tier: &str, seed: u64) -> i32 {
    let t0 = std::time::Instant::now();
    let mut ev = Evidence::new("C10", tier, seed, "exploration");
    ev.rule = "library level: generated structures (all operators, wrappers, `~`, let, handlers) in which every user expression (initial values, operands of every arity, member accesses, type operands, handler) carries a unique marker identifier, expanded under the 8 configurations; oracle: every marker occurs exactly once in the output token stream (nothing dropped, nothing duplicated). Non-trivial = at least 4 markers".to_string();
    let cases: u32 = if tier == "quick" { 30_000 } else { 600_000 };
    let counts = RefCell::new((0u64, 0u64, Vec::<serde_json::Value>::new()));
    let stop = RefCell::new(false);
    let mut runner = crate::new_runner(seed, 0x10, cases);
    let r = runner.run(&(c14::sprog(), 0usize..8), |(p, ci)| {
        let (q, n) = mark(&p);
        let text = q.render();
        let res = catch_unwind(AssertUnwindSafe(|| {
            let ts = proc_macro2::TokenStream::from_str(&text).ok()?;
            crate::c15::HEARTBEAT.fetch_add(1, std::sync::atomic::Ordering::Relaxed);
            let parsed = syn::parse2::<JoinInputDefault>(ts).ok()?;
            Some(generate_join(&parsed, cfg(ci)).to_string())
        }));
        let out = match res {
            Ok(Some(o)) => o,
            _ => return Ok(()), // rejected (e.g. handler kind vs configuration): nothing to count
        };
        if !*stop.borrow() {
            let mut c = counts.borrow_mut();
            c.0 += 1;
            if n >= 4 {
                c.1 += 1;
                if c.2.len() < 3 && c.1 % 4001 == 1 {
                    c.2.push(json!({"input": text, "config": ci, "markers": n}));
                }
            }
        }
        let cs = count_markers(&out, n);
        for i in 1..=n {
            if cs[i] != 1 {
                *stop.borrow_mut() = true;
                return Err(TestCaseError::fail(format!("marker m_{} occurs {} times in the expansion of `{}` (config {:?})", i, cs[i], text, CONFIGS[ci])));
            }
        }
        Ok(())
    });
    let c = counts.into_inner();
    ev.evaluations = c.0;
    ev.nontrivial = c.1;
    ev.samples = c.2;
    let mut code = 0;
    if let Err(TestError::Fail(reason, (p, ci))) = r {
        ev.violations = 1;
        let (q, _) = mark(&p);
        let path = evid::write_replay("C10", &json!({"property": "C10", "engine": "L-synt", "part": "C10", "input": q.render(), "config": ci, "detail": reason.message(), "seed": seed}));
        evid::print_violation("C10", &path);
        code = 1;
    }
    ev.write(t0.elapsed().as_secs_f64());
    println!("C10 (library level) {}: expansions={} nontrivial={} violations={} wall={:.1}s", tier, ev.evaluations, ev.nontrivial, ev.violations, t0.elapsed().as_secs_f64());
    code
}

// ------------------------------------------------------------------------------- C13

/// rejected at compile time with a message: a syn error, one of the generator's configuration
/// messages, or a generator panic whose message names the subject (where exactly the rejection
/// happens - parser or generator - is not part of the property)
fn rejected_with_message(o: &Outcome, subject: &str) -> bool {
    match o {
        Outcome::SynErr(_) | Outcome::ConfigRejected(_) => true,
        Outcome::Panic(m) => m.to_lowercase().contains(subject) && !m.contains("This's a bug"),
        _ => false,
    }
}

fn handler_legal(kind: &str, ci: usize) -> bool {
    let is_try = CONFIGS[ci].1;
    match kind {
        "then" => !is_try,
        _ => is_try,
    }
}

fn c13(tier: &str, seed: u64) -> i32 {
    let t0 = std::time::Instant::now();
    let mut ev = Evidence::new("C13", tier, seed, "exploration");
    ev.rule = "library level: (configuration x handler kind x position among 1-5 branches) enumerated - a handler of the wrong kind for the macro must be rejected (generator configuration message or syn error), a legal one accepted; every pair of handlers (kinds x positions) must be rejected by the parser; plus generated structures with a second handler inserted at a random position. Non-trivial = an illegal combination or a second handler".to_string();
    let mut n = 0u64;
    let mut nt = 0u64;
    let mut classes: BTreeMap<String, u64> = BTreeMap::new();
    let mut violation: Option<(String, usize, String)> = None;
    let kinds = ["map", "and_then", "then"];
    let branches = ["a |> f", "b ~=> g", "c", "{ d }", "e .. len()"];
    'outer: for nb in 1..=5usize {
        for ci in 0..8 {
            for k in kinds {
                for pos in 0..=nb {
                    let mut parts: Vec<String> = branches[..nb].iter().map(|s| s.to_string()).collect();
                    parts.insert(pos, format!("{} => |x| x", k));
                    let text = parts.join(", ");
                    let (o, _) = expand(&text, ci);
                    n += 1;
                    let legal = handler_legal(k, ci);
                    *classes.entry(format!("single {} legal={}", k, legal)).or_default() += 1;
                    let ok = match (&o, legal) {
                        (Outcome::Valid, true) => true,
                        (Outcome::ConfigRejected(_), false) | (Outcome::SynErr(_), false) => true,
                        _ => false,
                    };
                    if !legal {
                        nt += 1;
                    }
                    if !ok {
                        violation = Some((text, ci, format!("handler `{}` under configuration (async, try, spawn) = {:?}: legal = {}, outcome {:?}", k, CONFIGS[ci], legal, o)));
                        break 'outer;
                    }
                    // second handler of every kind at every position
                    for k2 in kinds {
                        for pos2 in 0..=parts.len() {
                            let mut p2 = parts.clone();
                            p2.insert(pos2, format!("{} => |y| y", k2));
                            let text2 = p2.join(", ");
                            let (o2, _) = expand(&text2, ci);
                            n += 1;
                            nt += 1;
                            *classes.entry("two handlers".into()).or_default() += 1;
                            if !rejected_with_message(&o2, "handler") {
                                violation = Some((text2, ci, format!("a second handler was not rejected: outcome {:?}", o2)));
                                break 'outer;
                            }
                        }
                    }
                }
            }
        }
    }
    let mut samples = vec![json!({"input": "a |> f, map => |x| x, then => |y| y", "expect": "rejected"}), json!({"input": "then => |x| x, a |> f", "config": "try", "expect": "rejected"})];
    // generated structures with a second handler
    if violation.is_none() {
        let cases: u32 = if tier == "quick" { 5_000 } else { 100_000 };
        let mut runner = crate::new_runner(seed, 0x13, cases);
        let cnt = RefCell::new((0u64, Vec::<serde_json::Value>::new()));
        let r = runner.run(&(c14::sprog(), proptest::sample::select(kinds.to_vec()), any::<u16>(), 0usize..8), |(mut p, k2, pos, ci)| {
            if p.handler.is_none() {
                p.handler = Some(SHandler { kind: "map", expr: "|x| x".into(), pos: 0, comma: true });
            }
            // render, then insert a second handler between two branches (textually, at a branch boundary)
            let n = p.branches.len();
            let at = (pos as usize * (n + 1)) >> 16;
            let mut left = p.clone();
            left.branches.truncate(at);
            left.trailing_comma = false;
            let mut right = p.clone();
            right.branches.drain(..at);
            let lh = left.handler.take().filter(|h| h.pos < at || (at == n));
            let rh = right.handler.take();
            left.handler = lh.clone();
            right.handler = if lh.is_some() { None } else { rh.map(|mut h| { h.pos = h.pos.saturating_sub(at); h }) };
            let ltxt = if left.branches.is_empty() { left.handler.as_ref().map(|h| format!("{} => {},", h.kind, h.expr)).unwrap_or_default() } else { format!("{},", left.render()) };
            let rtxt = if right.branches.is_empty() { right.handler.as_ref().map(|h| format!("{} => {}", h.kind, h.expr)).unwrap_or_default() } else { right.render() };
            let text = format!("{} {} => |y| y, {}", ltxt, k2, rtxt);
            let (o, _) = expand(&text, ci);
            let mut c = cnt.borrow_mut();
            c.0 += 1;
            if c.1.len() < 2 && c.0 % 1500 == 1 {
                c.1.push(json!({"input": text, "outcome": format!("{:?}", o).chars().take(80).collect::<String>()}));
            }
            if rejected_with_message(&o, "handler") {
                Ok(())
            } else {
                Err(TestCaseError::fail(format!("two handlers not rejected: `{}` -> {:?}", text, o)))
            }
        });
        let c = cnt.into_inner();
        n += c.0;
        nt += c.0;
        samples.extend(c.1);
        if let Err(TestError::Fail(reason, _)) = r {
            let m = reason.message().to_string();
            let text = m.split('`').nth(1).unwrap_or("").to_string();
            violation = Some((text, 1, m));
        }
    }
    ev.evaluations = n;
    ev.nontrivial = nt;
    ev.classes = classes;
    ev.samples = samples;
    let mut code = 0;
    if let Some((text, ci, d)) = violation {
        ev.violations = 1;
        let path = evid::write_replay("C13", &json!({"property": "C13", "engine": "L-synt", "part": "C13", "input": text, "config": ci, "detail": d, "seed": seed}));
        evid::print_violation("C13", &path);
        code = 1;
    }
    ev.write(t0.elapsed().as_secs_f64());
    println!("C13 (library level) {}: inputs={} nontrivial={} violations={} wall={:.1}s", tier, ev.evaluations, ev.nontrivial, ev.violations, t0.elapsed().as_secs_f64());
    code
}

// ------------------------------------------------------------------------------- C16

const OPTS: [(&str, [&str; 3]); 4] = [
    ("futures_crate_path", ["::futures", "::my::fx", "fx"]),
    ("custom_joiner", ["j", "::a::b::join", "my_joiner!"]),
    ("transpose_results", ["true", "false", "true"]),
    ("lazy_branches", ["false", "true", "false"]),
];

/// first branches whose first token can or cannot glue to a preceding `name(..)` call
const FIRST_BRANCH: [&str; 8] = ["x |> f", "-1", "(x)", "[0]", "|v| v", "Some(1)", "{ y }", "&z"];

fn ordered_subsets() -> Vec<Vec<usize>> {
    // all ordered subsets of {0,1,2,3}: 1 + 4 + 12 + 24 + 24 = 65
    fn rec(cur: &mut Vec<usize>, out: &mut Vec<Vec<usize>>) {
        out.push(cur.clone());
        for i in 0..4 {
            if !cur.contains(&i) {
                cur.push(i);
                rec(cur, out);
                cur.pop();
            }
        }
    }
    let mut out = Vec::new();
    rec(&mut Vec::new(), &mut out);
    out
}

fn check_options(seq: &[(usize, usize)], first: &str) -> Result<(), String> {
    let text = format!("{} {}", seq.iter().map(|(o, v)| format!("{}({})", OPTS[*o].0, OPTS[*o].1[*v])).collect::<Vec<_>>().join(" "), first);
    let ts = proc_macro2::TokenStream::from_str(&text).map_err(|e| format!("lex: {}", e))?;
    crate::c15::HEARTBEAT.fetch_add(1, std::sync::atomic::Ordering::Relaxed);
    crate::c15::set_current(&text, 4);
    let r = catch_unwind(AssertUnwindSafe(|| syn::parse2::<JoinInputDefault>(ts)));
    let parsed = match r {
        Err(_) => return Err(format!("parser panicked on `{}`", text)),
        Ok(Err(e)) => return Err(format!("`{}` rejected: {}", text, e)),
        Ok(Ok(p)) => p,
    };
    let want = |o: usize| seq.iter().find(|(oo, _)| *oo == o).map(|(_, v)| OPTS[o].1[*v]);
    let norm = |s: &str| proc_macro2::TokenStream::from_str(s).unwrap().to_string();
    let got_path = parsed.futures_crate_path.as_ref().map(|p| p.to_token_stream().to_string());
    if got_path != want(0).map(norm) {
        return Err(format!("`{}`: futures_crate_path parsed as {:?}", text, got_path));
    }
    let got_joiner = parsed.custom_joiner.as_ref().map(|p| p.to_string());
    if got_joiner != want(1).map(norm) {
        return Err(format!("`{}`: custom_joiner parsed as {:?}", text, got_joiner));
    }
    if parsed.transpose_results != want(2).map(|s| s == "true") {
        return Err(format!("`{}`: transpose_results parsed as {:?}", text, parsed.transpose_results));
    }
    if parsed.lazy_branches != want(3).map(|s| s == "true") {
        return Err(format!("`{}`: lazy_branches parsed as {:?}", text, parsed.lazy_branches));
    }
    if parsed.branches.len() != 1 {
        return Err(format!("`{}`: {} branches parsed, 1 written", text, parsed.branches.len()));
    }
    let got_first = view(&parsed)[0].members[0].operands.get(0).cloned().unwrap_or_default();
    let want_first = norm_expr(first.split(" |>").next().unwrap());
    if got_first != want_first {
        return Err(format!("`{}`: first branch starts with `{}`, written `{}`", text, got_first, want_first));
    }
    Ok(())
}

fn check_duplicate(seq: &[(usize, usize)], first: &str) -> Result<(), String> {
    let text = format!("{} {}", seq.iter().map(|(o, v)| format!("{}({})", OPTS[*o].0, OPTS[*o].1[*v])).collect::<Vec<_>>().join(" "), first);
    let ts = proc_macro2::TokenStream::from_str(&text).map_err(|e| format!("lex: {}", e))?;
    let _ = ts;
    // an async configuration, so that futures_crate_path itself is legal
    let (o, _) = expand(&text, 4);
    let ok = match &o {
        Outcome::SynErr(_) => true,
        Outcome::Panic(m) | Outcome::ConfigRejected(m) => (m.contains("twice") || m.contains("specified") || m.contains("duplicate")) && !m.contains("This's a bug"),
        _ => false,
    };
    if ok {
        Ok(())
    } else {
        Err(format!("`{}`: an option given twice was accepted ({:?})", text, o).chars().take(400).collect())
    }
}

/// known-finding classification of a failing duplicate-option input
fn known_sig_c16(seq: &[(usize, usize)], _first: &str) -> Option<String> {
    let _ = seq;
    None
}

fn c16(tier: &str, seed: u64) -> i32 {
    let t0 = std::time::Instant::now();
    let known = evid::Known::load();
    let mut ev = Evidence::new("C16", tier, seed, "exploration");
    ev.rule = "library level: all 65 ordered subsets of the four options x value variants x 8 kinds of first branch (ones whose first token could glue to the preceding option call: `-1`, `(x)`, `[0]`, `|v| v`, ...) enumerated - parsed option fields and the first branch must equal what was written; every single-duplicate insertion into every ordered subset at every position must be rejected by the parser. Non-trivial = >= 2 options or a duplicate".to_string();
    ev.exhaustive = Some(true);
    let mut n = 0u64;
    let mut nt = 0u64;
    let mut classes: BTreeMap<String, u64> = BTreeMap::new();
    let mut violation: Option<(String, String)> = None;
    let mut known_hits: BTreeMap<String, (u64, String)> = BTreeMap::new();
    let subsets = ordered_subsets();
    let _ = (tier, seed);
    'outer: for (si, sub) in subsets.iter().enumerate() {
        for (fi, first) in FIRST_BRANCH.iter().enumerate() {
            for vv in 0..3 {
                let seq: Vec<(usize, usize)> = sub.iter().map(|o| (*o, (vv + *o) % 3)).collect();
                n += 1;
                if seq.len() >= 2 {
                    nt += 1;
                }
                *classes.entry(format!("subset_size={}", seq.len())).or_default() += 1;
                if let Err(d) = check_options(&seq, first) {
                    violation = Some((d.clone(), d));
                    break 'outer;
                }
            }
            // duplicates: insert a copy of each present option at every position
            for d in sub.iter() {
                for pos in 0..=sub.len() {
                    let mut seq: Vec<(usize, usize)> = sub.iter().map(|o| (*o, 0)).collect();
                    seq.insert(pos, (*d, 1));
                    n += 1;
                    nt += 1;
                    *classes.entry("duplicate".into()).or_default() += 1;
                    if let Err(dd) = check_duplicate(&seq, first) {
                        if let Some(sig) = known_sig_c16(&seq, first) {
                            if known.open("C16", &sig).is_some() {
                                let e = known_hits.entry(sig).or_insert((0, dd.clone()));
                                e.0 += 1;
                                continue;
                            }
                        }
                        violation = Some((dd.clone(), dd));
                        break 'outer;
                    }
                }
            }
            let _ = (si, fi);
        }
    }
    ev.evaluations = n;
    ev.nontrivial = nt;
    ev.classes = classes;
    ev.samples = vec![json!("lazy_branches(true) custom_joiner(j) (x)"), json!("transpose_results(true) futures_crate_path(::futures) transpose_results(false) -1  => must be rejected")];
    for (sig, (k, example)) in known_hits {
        let what = known.open("C16", &sig).and_then(|e| e["what"].as_str().map(|s| s.to_string())).unwrap_or_default();
        println!("KNOWN-FINDING: property=C16 {} [{} enumerated inputs of this class, e.g. {}]", what, k, example);
        ev.known_findings.push(sig);
        ev.excluded_known += k;
    }
    let mut code = 0;
    if let Some((text, d)) = violation {
        ev.violations = 1;
        let input = text.split('`').nth(1).unwrap_or("").to_string();
        let path = evid::write_replay("C16", &json!({"property": "C16", "engine": "L-synt", "part": "C16", "input": input, "must_reject": d.contains("twice"), "detail": d, "seed": seed}));
        evid::print_violation("C16", &path);
        code = 1;
    }
    ev.write(t0.elapsed().as_secs_f64());
    println!("C16 (library level) {}: inputs={} nontrivial={} violations={} wall={:.1}s", tier, ev.evaluations, ev.nontrivial, ev.violations, t0.elapsed().as_secs_f64());
    code
}

pub fn run(id: &str, tier: &str, seed: u64) -> i32 {
    match id {
        "C10" => c10(tier, seed),
        "C13" => c13(tier, seed),
        _ => c16(tier, seed),
    }
}

pub fn replay(v: &serde_json::Value) -> i32 {
    let text = v["input"].as_str().unwrap_or("");
    let ci = v["config"].as_u64().unwrap_or(1) as usize;
    match v["part"].as_str() {
        Some("C10") => {
            let (o, _) = expand(text, ci);
            if o != Outcome::Valid {
                println!("replay: input no longer expands: {:?}", o);
                return 0;
            }
            let ts = proc_macro2::TokenStream::from_str(text).unwrap();
            crate::c15::HEARTBEAT.fetch_add(1, std::sync::atomic::Ordering::Relaxed);
            let parsed = syn::parse2::<JoinInputDefault>(ts).unwrap();
            let out = generate_join(&parsed, cfg(ci)).to_string();
            let n = text.matches("m_").count();
            let cs = count_markers(&out, n);
            let in_cs = count_markers(text, n);
            for i in 1..=n {
                if in_cs[i] == 1 && cs[i] != 1 {
                    println!("replay: violation reproduced: marker m_{} occurs {} times", i, cs[i]);
                    return 1;
                }
            }
            println!("replay: every marker occurs exactly once");
            0
        }
        Some("C13") => {
            let (o, _) = expand(text, ci);
            println!("replay: outcome {:?}", o);
            let handlers = text.matches("=> |").count();
            let bad = if handlers >= 2 { !matches!(o, Outcome::SynErr(_)) } else { matches!(o, Outcome::Panic(_) | Outcome::InvalidOutput(_)) || (matches!(o, Outcome::Valid) && v["detail"].as_str().map(|d| d.contains("legal = false")).unwrap_or(false)) };
            if bad {
                println!("replay: violation reproduced");
                1
            } else {
                0
            }
        }
        _ => {
            let ts = match proc_macro2::TokenStream::from_str(text) {
                Ok(t) => t,
                Err(_) => return 2,
            };
            crate::c15::HEARTBEAT.fetch_add(1, std::sync::atomic::Ordering::Relaxed);
            let r = syn::parse2::<JoinInputDefault>(ts);
            let must_reject = v["must_reject"].as_bool().unwrap_or(false);
            println!("replay: parser {}", if r.is_ok() { "accepted" } else { "rejected" });
            if r.is_ok() == must_reject {
                println!("replay: violation reproduced");
                1
            } else {
                0
            }
        }
    }
}
