//! C15: expansion is total - valid code or a diagnostic, never an internal panic; structurally
//! invalid input is rejected with a message.

use crate::c14;
use crate::dsl::*;
use crate::evid::{self, Evidence};
use join_impl::chain::expr::{ActionExpr, ProcessExpr};
use join_impl::chain::Chain;
use join_impl::{generate_join, Config, JoinInputDefault};
use proptest::prelude::*;
use proptest::test_runner::{TestCaseError, TestError};
use quote::ToTokens;
use serde_json::json;
use std::cell::RefCell;
use std::collections::{BTreeMap, HashSet};
use std::panic::{catch_unwind, AssertUnwindSafe};
use std::str::FromStr;
use std::sync::atomic::{AtomicU64, Ordering};

pub const CONFIGS: [(bool, bool, bool); 8] = [
    (false, false, false),
    (false, true, false),
    (false, false, true),
    (false, true, true),
    (true, false, false),
    (true, true, false),
    (true, false, true),
    (true, true, true),
];

pub fn cfg(i: usize) -> Config {
    let (is_async, is_try, is_spawn) = CONFIGS[i % 8];
    Config { is_async, is_try, is_spawn }
}

#[derive(Debug, Clone, PartialEq)]
pub enum Outcome {
    /// parsed and generated; output is a syntactically valid expression
    Valid,
    /// parsed and generated, but the output is not a valid expression
    InvalidOutput(String),
    /// rejected with a syn error
    SynErr(String),
    /// rejected by the generator with one of its configuration messages
    ConfigRejected(String),
    /// any other panic
    Panic(String),
    /// the input is not lexable (never produced by the generators; counted)
    NotLexable,
    /// a `..` / `>.` operand is not syntactically a member access: outside the property's domain
    /// (whatever happens - invalid output, a panic of `parse_quote!` on it - is the user's doing)
    OutOfDomain,
}

fn panic_text(p: Box<dyn std::any::Any + Send>) -> String {
    if let Some(s) = p.downcast_ref::<&str>() {
        s.to_string()
    } else if let Some(s) = p.downcast_ref::<String>() {
        s.clone()
    } else {
        "<non-string panic>".into()
    }
}

pub static HEARTBEAT: AtomicU64 = AtomicU64::new(0);
/// the input being expanded right now (for the watchdog)
pub static CURRENT: std::sync::Mutex<(String, usize)> = std::sync::Mutex::new((String::new(), 0));
pub static EXCLUDED_LET_BOOL: AtomicU64 = AtomicU64::new(0);

/// Dot operands that are not syntactically member accesses make the output invalid by the
/// user's own doing: validity of the output is only demanded otherwise.
fn dots_are_members(parsed: &JoinInputDefault) -> bool {
    for b in &parsed.branches {
        for m in b.members() {
            if let ActionExpr::Process(ProcessExpr::Dot([e])) = m.expr() {
                // member access: `__x . operand` is a postfix expression (field, method call, await, `?`,
                // index or call of such), so that a further `.method()` / `.await` can follow it
                let probe = format!("__x . {}", e.to_token_stream());
                match syn::parse_str::<syn::Expr>(&probe) {
                    Ok(syn::Expr::Field(_)) | Ok(syn::Expr::MethodCall(_)) | Ok(syn::Expr::Await(_)) | Ok(syn::Expr::Try(_)) | Ok(syn::Expr::Index(_)) | Ok(syn::Expr::Call(_)) => {}
                    _ => return false,
                }
            }
        }
    }
    true
}

/// records the input that is about to be expanded (read by the stall watchdogs)
pub fn set_current(text: &str, ci: usize) {
    if let Ok(mut c) = CURRENT.try_lock() {
        c.0.clear();
        c.0.push_str(text);
        c.1 = ci;
    }
}

pub fn expand(text: &str, ci: usize) -> (Outcome, bool) {
    HEARTBEAT.fetch_add(1, Ordering::Relaxed);
    set_current(text, ci);
    let ts = match proc_macro2::TokenStream::from_str(text) {
        Ok(t) => t,
        Err(_) => return (Outcome::NotLexable, false),
    };
    let members_ok_cell = std::cell::Cell::new(true);
    let illegal_cfg_cell = std::cell::Cell::new(false);
    let r = catch_unwind(AssertUnwindSafe(|| match syn::parse2::<JoinInputDefault>(ts) {
        Err(e) => (Outcome::SynErr(e.to_string()), false),
        Ok(parsed) => {
            let members_ok = dots_are_members(&parsed);
            members_ok_cell.set(members_ok);
            // a combination the documentation rules out: handler kind against macro kind, futures
            // crate path on a macro that is not async
            let (is_async, is_try, _) = CONFIGS[ci % 8];
            illegal_cfg_cell.set(
                match &parsed.handler {
                    Some(join_impl::handler::Handler::Then(_)) => is_try,
                    Some(_) => !is_try,
                    None => false,
                } || (parsed.futures_crate_path.is_some() && !is_async),
            );
            let out = generate_join(&parsed, cfg(ci));
            if !members_ok {
                return (Outcome::OutOfDomain, true);
            }
            match syn::parse2::<syn::Expr>(out.clone()) {
                Ok(_) => (Outcome::Valid, true),
                Err(e) => (Outcome::InvalidOutput(format!("{} in `{}`", e, out.to_string().chars().take(300).collect::<String>())), true),
            }
        }
    }));
    if !members_ok_cell.get() {
        return (Outcome::OutOfDomain, true);
    }
    match r {
        Ok(o) => o,
        Err(p) => {
            let m = panic_text(p);
            // the generator rejects a configuration by panicking with a message (the compiler shows it
            // as the macro's diagnostic). Recognised by its wording on the pinned tree, or - so that a
            // reworded diagnostic is not taken for an internal panic - by its cause: the input *is* a
            // ruled-out combination and the panic carries a message
            // (the pinned generator unwraps an `Err(message)`, so the text starts with std's unwrap wording)
            let by_cause = illegal_cfg_cell.get() && !m.trim().is_empty() && m != "<non-string panic>" && !m.contains("This's a bug");
            if m.contains("handler should be only provided") || m.contains("futures_crate_path should be only provided") || by_cause {
                (Outcome::ConfigRejected(m), true)
            } else {
                (Outcome::Panic(m), true)
            }
        }
    }
}

// ------------------------------------------------------------------ (a) token soups

pub const VOCAB: [&str; 86] = [
    "|>", "=>", "?>", "..", ">.", "->", "<|", "<=", "!>", "=>[]", ">@>", "?|>@", "?|>", "|n>", "?&!>", "^^>", "^@", "?^@", "?@", ">^>", "<->", "??", "<<<", ">>>", "~", ",", ",", ",", "let", "mut", "=", "x", "f", "g",
    "map", "then", "and_then", "n", "map =>", "then =>", "and_then =>", "1", "\"s\"", "'c'", "|v| v", "|a, b| a", "Some(1)", "Vec<_>", "len()", "_", "&x", "futures_crate_path(::futures)", "custom_joiner(j)",
    "custom_joiner(m!)", "transpose_results(false)", "transpose_results(true)", "lazy_branches(true)", "lazy_branches(false)", "::", ";", "?", "!", "|", ">",
    "'a", "#", "@", "$", "<", "-", "^", "&", ".", "r#x", "0", "1.5", "x.await", "|| x", "move", "as u8",
    "r#type", "r#match", "custom_joiner", "lazy_branches", "transpose_results", "futures_crate_path",
];

/// a token soup as text
pub fn soup() -> impl Strategy<Value = String> {
    soup_tokens().prop_map(|v| v.join(" "))
}

pub fn soup_tokens() -> impl Strategy<Value = Vec<String>> {
    let leaf = proptest::sample::select(VOCAB.to_vec()).prop_map(|s| vec![s.to_string()]);
    let tok = leaf.prop_recursive(3, 24, 6, |inner| {
        (proptest::collection::vec(inner, 0..6), 0u8..3).prop_map(|(v, d)| {
            let body: Vec<String> = v.into_iter().flatten().collect();
            let (o, c) = [("(", ")"), ("[", "]"), ("{", "}")][d as usize];
            vec![format!("{} {} {}", o, body.join(" "), c)]
        })
    });
    proptest::collection::vec(tok, 0..40).prop_map(|v| v.into_iter().flatten().collect())
}

// ------------------------------------------------------------------ (c) near-valid inputs

/// valid programs whose Dot operands are member accesses, as token lists
fn valid_prog() -> impl Strategy<Value = SProg> {
    c14::sprog().prop_map(|mut p| {
        for b in p.branches.iter_mut() {
            for a in b.acts.iter_mut() {
                if OPS[a.op].arity == Arity::Member && a.operands.iter().any(|o| o == "await") {
                    a.operands = vec!["len()".into()];
                }
            }
        }
        p
    })
}

#[derive(Clone, Debug)]
pub enum Edit {
    Insert(usize, String),
    Delete(usize),
    Replace(usize, String),
    Swap(usize),
}

fn edits() -> impl Strategy<Value = Vec<Edit>> {
    let e = prop_oneof![
        (any::<u16>(), proptest::sample::select(VOCAB.to_vec())).prop_map(|(i, s)| Edit::Insert(i as usize, s.to_string())),
        any::<u16>().prop_map(|i| Edit::Delete(i as usize)),
        (any::<u16>(), proptest::sample::select(VOCAB.to_vec())).prop_map(|(i, s)| Edit::Replace(i as usize, s.to_string())),
        any::<u16>().prop_map(|i| Edit::Swap(i as usize)),
    ];
    proptest::collection::vec(e, 1..4)
}

/// applies edits at token-tree granularity (never unbalancing a delimiter)
pub fn apply_edits(text: &str, eds: &[Edit]) -> String {
    let ts = match proc_macro2::TokenStream::from_str(text) {
        Ok(t) => t,
        Err(_) => return text.to_string(),
    };
    let mut toks: Vec<String> = ts.into_iter().map(|t| t.to_string()).collect();
    // re-glue multi-character puncts is unnecessary: the DSL's operators are recognised token by token,
    // and `=>`, `->`, `..`, `<=` keep their joint spacing only when untouched; so work on a coarser split:
    // split the original text on whitespace instead when it lexes back to the same stream
    let coarse: Vec<String> = text.split_whitespace().map(|s| s.to_string()).collect();
    if proc_macro2::TokenStream::from_str(&coarse.join(" ")).is_ok() {
        // whitespace chunks may cut through a delimited group; only use them when each chunk lexes alone
        if coarse.iter().all(|c| proc_macro2::TokenStream::from_str(c).is_ok()) {
            toks = coarse;
        }
    }
    for e in eds {
        let n = toks.len();
        match e {
            Edit::Insert(i, s) => toks.insert(if n == 0 { 0 } else { i * (n + 1) >> 16 }, s.clone()),
            Edit::Delete(i) => {
                if n > 0 {
                    toks.remove(i * n >> 16);
                }
            }
            Edit::Replace(i, s) => {
                if n > 0 {
                    toks[i * n >> 16] = s.clone();
                }
            }
            Edit::Swap(i) => {
                if n > 1 {
                    let k = i * (n - 1) >> 16;
                    toks.swap(k, k + 1);
                }
            }
        }
    }
    toks.join(" ")
}

// ------------------------------------------------------------------ (b) single-fault mutations

/// Every listed class of structural error, applied to a valid program. Each returned input
/// must be rejected with a diagnostic.
/// one structurally invalid input (a single-fault mutation of a valid program), or a valid program with a
/// stray `~` at its end / in front of a comma - inputs for histories of expansions (C20)
pub fn faulty() -> impl Strategy<Value = String> {
    (valid_prog(), any::<u16>()).prop_map(|(p, k)| {
        let base = p.render();
        match k % 4 {
            0 => format!("{} ~", base),
            1 if base.contains(", ") => base.replacen(", ", " ~ , ", 1),
            _ => {
                let f = faults(&p);
                f[(k as usize / 4) % f.len()].1.clone()
            }
        }
    })
}

pub fn faults(p: &SProg) -> Vec<(&'static str, String)> {
    let mut out: Vec<(&'static str, String)> = Vec::new();
    let base = p.render();
    let one = |b: &SBranch| SProg { options: vec![], branches: vec![b.clone()], handler: None, trailing_comma: false }.render();
    let b0 = one(&p.branches[0]);
    // ---- empty branch
    out.push(("empty_branch_leading_comma", format!(", {}", base)));
    out.push(("empty_branch_double_comma", format!("{} , , {}", b0, b0)));
    out.push(("empty_branch_let", format!("let e = , {}", base)));
    out.push(("empty_branch_let_end", format!("{} , let e = ", b0)));
    // ---- no branch
    out.push(("no_branch_empty", String::new()));
    out.push(("no_branch_options_only", "lazy_branches(true) transpose_results(false)".to_string()));
    out.push(("no_branch_handler_only", "map => |a| a".to_string()));
    out.push(("no_branch_then_handler_only", "then => f".to_string()));
    out.push(("no_branch_handler_only_comma", "and_then => |a| a ,".to_string()));
    // ---- `<<<` without a matching `>>>` in the same step
    out.push(("unwrap_unmatched_start", format!("{} <<< |> f", b0_without_open(&p.branches[0]))));
    out.push(("unwrap_unmatched_across_step", "x |> >>> |> f ~<<< |> g".to_string()));
    out.push(("unwrap_unmatched_across_step2", "x |> >>> ~|> f <<<".to_string()));
    out.push(("unwrap_unmatched_across_step3", "x |> >>> ~ <<<".to_string()));
    out.push(("unwrap_unmatched_double", "x => >>> |> f <<< <<<".to_string()));
    out.push(("unwrap_unmatched_after_deferred_wrapper", "x |> >>> ~=> >>> |> f <<< <<<".to_string()));
    out.push(("unwrap_unmatched_second_branch", format!("{} , y <<<", b0)));
    // ---- `>>>` after a non-wrapper operator, with each spelling
    for (tok, operand) in [
        ("..", ""),
        (">.", ""),
        ("->", ""),
        ("<|", ""),
        ("=>[]", ""),
        (">@>", ""),
        ("|n>", ""),
        ("^^>", ""),
        ("^@", ""),
        ("?^@", ""),
        (">^>", ""),
        ("<->", ""),
    ] {
        out.push(("wrap_after_non_wrapper", format!("x {} >>> {} |> f <<<", tok, operand)));
        out.push(("wrap_after_non_wrapper_deferred", format!("x |> g ~{} >>> |> f", tok)));
        // (the wrapper marker followed by what could be the operator's ordinary operand)
        out.push(("wrap_after_non_wrapper_operand", format!("x {} >>> y", tok)));
        out.push(("wrap_after_non_wrapper_operand_closed", format!("x {} >>> y <<< |> f", tok)));
        out.push(("wrap_after_non_wrapper_end", format!("x {} >>>", tok)));
    }
    // ---- `<<<` combined with `>>>`
    out.push(("unwrap_and_wrap", "x |> >>> |> f <<< >>> |> g".to_string()));
    out.push(("unwrap_and_wrap2", "x => >>> <<< >>> <<<".to_string()));
    // ---- non-identifier let patterns
    // (known finding: not inspected when the initial value is a top-level `&&` / `||` expression;
    //  that class is excluded by construction - the value is parenthesised - and counted)
    let lazy_bool = matches!(syn::parse_str::<syn::Expr>(&p.branches[0].init), Ok(syn::Expr::Binary(e)) if matches!(e.op, syn::BinOp::And(_) | syn::BinOp::Or(_)));
    let b0 = if lazy_bool {
        EXCLUDED_LET_BOOL.fetch_add(1, Ordering::Relaxed);
        format!("({})", b0)
    } else {
        b0
    };
    for pat in ["(a, b)", "Some(a)", "_", "&a", "[a, b]", "S { a }", "(a)", "a | b", "1"] {
        out.push(("let_non_ident_pattern", format!("let {} = {}", pat, b0)));
        out.push(("let_non_ident_pattern_second", format!("y, let {} = {}", pat, b0)));
    }
    // ---- duplicated options at every position
    let opts = [
        ("futures_crate_path", "::futures"),
        ("custom_joiner", "j"),
        ("transpose_results", "true"),
        ("lazy_branches", "false"),
    ];
    for d in 0..4 {
        // all orders of the four options would be 24; rotate instead, and insert the duplicate at every position
        for rot in 0..4 {
            let order: Vec<usize> = (0..4).map(|i| (i + rot) % 4).collect();
            for pos in 0..=4 {
                let mut seq: Vec<usize> = order.clone();
                seq.insert(pos, d);
                let text: Vec<String> = seq.iter().map(|i| format!("{}({})", opts[*i].0, opts[*i].1)).collect();
                out.push(("duplicate_option", format!("{} {}", text.join(" "), b0)));
            }
        }
        // duplicate with fewer options present
        out.push(("duplicate_option_alone", format!("{}({}) {}({}) {}", opts[d].0, opts[d].1, opts[d].0, opts[d].1, b0)));
        let other = (d + 1) % 4;
        out.push(("duplicate_option_split", format!("{}({}) {}({}) {}({}) {}", opts[d].0, opts[d].1, opts[other].0, opts[other].1, opts[d].0, opts[d].1, b0)));
    }
    out
}

fn b0_without_open(b: &SBranch) -> String {
    // the initial value alone: no wrapper can be open
    b.init.clone()
}

// ------------------------------------------------------------------ the check

struct Tally {
    n: u64,
    nontrivial: u64,
    classes: BTreeMap<String, u64>,
    samples: Vec<serde_json::Value>,
    seen: HashSet<u64>,
}

fn fnv(s: &str) -> u64 {
    s.bytes().fold(0xcbf29ce484222325u64, |a, b| (a ^ b as u64).wrapping_mul(0x100000001b3))
}

pub static KNOWN_LET_KEYWORD: AtomicU64 = AtomicU64::new(0);
thread_local! {
    /// is the keyword-let finding listed as open?
    static KNOWN: bool = evid::Known::load().open("C15", "let-name-is-a-keyword").is_some();
}

/// known finding: a `let` name that is a keyword
pub fn let_name_is_keyword(text: &str) -> bool {
    let Ok(ts) = proc_macro2::TokenStream::from_str(text) else { return false };
    match catch_unwind(AssertUnwindSafe(|| syn::parse2::<JoinInputDefault>(ts))) {
        Ok(Ok(p)) => p.branches.iter().any(|b| b.id().map(|pat| syn::parse_str::<syn::Ident>(&pat.ident.to_string()).is_err()).unwrap_or(false)),
        _ => false,
    }
}

/// verdict for one input: Err(detail) is a violation
fn judge(text: &str, ci: usize, must_reject: bool, tally: &RefCell<Tally>, stop: &RefCell<bool>) -> Result<(), String> {
    let (o, reached) = expand(text, ci);
    if !*stop.borrow() {
        let mut t = tally.borrow_mut();
        t.n += 1;
        let cls = match &o {
            Outcome::Valid => "outcome valid",
            Outcome::InvalidOutput(_) => "outcome invalid_output",
            Outcome::SynErr(_) => "outcome syn_error",
            Outcome::ConfigRejected(_) => "outcome config_rejected",
            Outcome::Panic(_) => "outcome panic",
            Outcome::NotLexable => "outcome not_lexable",
            Outcome::OutOfDomain => "outcome out_of_domain (dot operand is not a member access)",
        };
        *t.classes.entry(cls.to_string()).or_default() += 1;
        if (reached || must_reject) && o != Outcome::OutOfDomain && t.seen.insert(fnv(text) ^ ci as u64) {
            t.nontrivial += 1;
            if t.samples.len() < 8 && t.nontrivial % 1009 == 1 {
                t.samples.push(json!({"input": text, "config": ci, "outcome": cls}));
            }
        }
    }
    match o {
        Outcome::Panic(m) => Err(format!("internal panic: {}", m)),
        Outcome::InvalidOutput(m) => {
            if let_name_is_keyword(text) && KNOWN.with(|k| *k) {
                KNOWN_LET_KEYWORD.fetch_add(1, Ordering::Relaxed);
                return Ok(());
            }
            Err(format!("accepted input expands to invalid code: {}", m))
        }
        Outcome::Valid | Outcome::ConfigRejected(_) if must_reject => Err("structurally invalid input was accepted silently".to_string()),
        _ => Ok(()),
    }
}

pub fn run(tier: &str, seed: u64) -> i32 {
    let t0 = std::time::Instant::now();
    let mut ev = Evidence::new("C15", tier, seed, "exploration");
    ev.rule = "inputs: (a) token soups over the DSL vocabulary (all operators, `~`, `>>>`, `<<<`, commas, `let`, handlers, options, identifiers that are DSL keywords, literals, closures, recursively nested (), [], {} groups), length 0-40 token trees; (b) every listed structural fault applied to generated valid programs (empty branch, no branch, `<<<` without a `>>>` in the same step incl. across `~`, `>>>` after each of the 12 non-wrapper spellings, `<<<` with `>>>`, nine non-identifier `let` patterns, duplicated options at every position and rotation); (c) generated valid programs with 1-3 random token-level edits (insert / delete / replace / swap); each under one of the 8 configurations. Oracle: outcome class must be valid expression (demanded only when every `..` operand is a member access, decided by syn on `__x . operand`), syn error, or one of the generator's configuration messages; (b)-inputs must be rejected. Non-trivial = the input reaches the generator or is a (b)-input; distinct by input text x configuration".to_string();
    ev.assumptions = vec!["an expansion that runs for 20 s is re-run in a fresh process with a 60 s limit: not finished there either = does not terminate (violation); finished there = inconclusive (exit 2)".into()];
    // watchdog: a stalled expansion is reported as inconclusive
    std::thread::spawn(|| {
        let mut last = HEARTBEAT.load(Ordering::Relaxed);
        let mut idle = 0;
        loop {
            std::thread::sleep(std::time::Duration::from_secs(5));
            let now = HEARTBEAT.load(Ordering::Relaxed);
            if now == last {
                idle += 1;
                if idle >= 4 {
                    // an expansion (microseconds normally) has been running for 20 s. Totality is the
                    // property: confirm in a fresh process with a 60 s limit before calling it a violation
                    let (text, ci) = CURRENT.lock().map(|c| c.clone()).unwrap_or_default();
                    let path = evid::write_replay("C15", &json!({"property": "C15", "engine": "L-c15", "input": text, "config": ci, "kind": "hang", "must_reject": false, "detail": "the expansion of this input does not terminate (20 s in the run, 60 s again in a fresh process)", "seed": 0, "tier": "quick"}));
                    let confirmed = std::env::current_exe().ok().and_then(|exe| std::process::Command::new(exe).arg("replay").arg(&path).stdout(std::process::Stdio::null()).stderr(std::process::Stdio::null()).status().ok()).map(|st| st.code() == Some(1)).unwrap_or(false);
                    if confirmed {
                        evid::print_violation("C15", &path);
                        std::process::exit(1);
                    }
                    let _ = std::fs::remove_file(&path);
                    eprintln!("C15: an expansion did not terminate within 20 s but does in a fresh process (inconclusive)");
                    std::process::exit(2);
                }
            } else {
                idle = 0;
                last = now;
            }
        }
    });
    let tally = RefCell::new(Tally { n: 0, nontrivial: 0, classes: BTreeMap::new(), samples: vec![], seen: HashSet::new() });
    let stop = RefCell::new(false);
    let mut violation: Option<(String, usize, String, &'static str)> = None;
    let (n_soup, n_valid, n_edit) = if tier == "quick" { (120_000u32, 1_500u32, 80_000u32) } else { (3_000_000, 20_000, 2_000_000) };

    // ---- (b) faults over valid programs
    {
        let mut runner = crate::new_runner(seed, 0x15b, n_valid);
        let r = runner.run(&(valid_prog(), 0usize..8), |(p, ci)| {
            for (class, text) in faults(&p) {
                if !*stop.borrow() {
                    *tally.borrow_mut().classes.entry(format!("fault {}", class)).or_default() += 1;
                }
                judge(&text, ci, true, &tally, &stop).map_err(|d| {
                    *stop.borrow_mut() = true;
                    TestCaseError::fail(format!("{}\u{1}{}\u{1}{}", class, text, d))
                })?;
            }
            // the valid program itself must expand
            judge(&p.render(), ci, false, &tally, &stop).map_err(|d| {
                *stop.borrow_mut() = true;
                TestCaseError::fail(format!("valid_program\u{1}{}\u{1}{}", p.render(), d))
            })
        });
        if let Err(TestError::Fail(reason, (_p, ci))) = r {
            let msg = reason.message().to_string();
            let parts: Vec<&str> = msg.split('\u{1}').collect();
            if parts.len() == 3 {
                violation = Some((parts[1].to_string(), ci, parts[2].to_string(), "fault"));
            } else {
                violation = Some((String::new(), ci, msg, "fault"));
            }
        }
    }
    // ---- (a) soups
    if violation.is_none() {
        *stop.borrow_mut() = false;
        let mut runner = crate::new_runner(seed, 0x15a, n_soup);
        let r = runner.run(&(soup_tokens(), 0usize..8), |(toks, ci)| {
            let text = toks.join(" ");
            judge(&text, ci, false, &tally, &stop).map_err(|d| {
                *stop.borrow_mut() = true;
                TestCaseError::fail(d)
            })
        });
        if let Err(TestError::Fail(reason, (toks, ci))) = r {
            violation = Some((toks.join(" "), ci, reason.message().to_string(), "soup"));
        }
    }
    // ---- (c) near-valid
    if violation.is_none() {
        *stop.borrow_mut() = false;
        let mut runner = crate::new_runner(seed, 0x15c, n_edit);
        let r = runner.run(&(valid_prog(), edits(), 0usize..8), |(p, eds, ci)| {
            let text = apply_edits(&p.render(), &eds);
            judge(&text, ci, false, &tally, &stop).map_err(|d| {
                *stop.borrow_mut() = true;
                TestCaseError::fail(d)
            })
        });
        if let Err(TestError::Fail(reason, (p, eds, ci))) = r {
            violation = Some((apply_edits(&p.render(), &eds), ci, reason.message().to_string(), "edited"));
        }
    }
    let t = tally.into_inner();
    ev.evaluations = t.n;
    ev.nontrivial = t.nontrivial;
    ev.classes = t.classes;
    ev.samples = t.samples;
    // every open finding of this property: its canonical input is re-checked on each run; while it
    // still misbehaves the finding is reported
    let known = evid::Known::load();
    let excl = EXCLUDED_LET_BOOL.load(Ordering::Relaxed);
    let nk = KNOWN_LET_KEYWORD.load(Ordering::Relaxed);
    for e in known.entries.iter().filter(|e| e["property"] == "C15" && e["status"] == "open") {
        let sig = e["signature"].as_str().unwrap_or("").to_string();
        let (canon, n, still) = match sig.as_str() {
            "let-pattern-before-top-level-lazy-boolean" => {
                let c = "let (a, b) = a && b || c";
                (c, excl, !matches!(expand(c, 0).0, Outcome::SynErr(_)))
            }
            "let-name-is-a-keyword" => {
                let c = "f, let mut let = f";
                (c, nk, matches!(expand(c, 0).0, Outcome::InvalidOutput(_)))
            }
            _ => ("", 0, true),
        };
        if still {
            println!("KNOWN-FINDING: property=C15 {} [canonical input `{}` still misbehaves; {} generated inputs of this class were set aside]", e["what"].as_str().unwrap_or(""), canon, n);
            ev.known_findings.push(sig);
            ev.excluded_known += n;
        }
    }
    let mut code = 0;
    if let Some((text, ci, d, kind)) = violation {
        ev.violations = 1;
        let must_reject = kind == "fault" && !d.contains("internal panic") && d.contains("accepted silently");
        let path = evid::write_replay("C15", &json!({"property": "C15", "engine": "L-c15", "input": text, "config": ci, "kind": kind, "must_reject": must_reject, "detail": d, "seed": seed, "tier": tier}));
        evid::print_violation("C15", &path);
        code = 1;
    }
    ev.write(t0.elapsed().as_secs_f64());
    println!("C15 {}: inputs={} nontrivial={} violations={} wall={:.1}s", tier, ev.evaluations, ev.nontrivial, ev.violations, t0.elapsed().as_secs_f64());
    code
}

pub fn replay(v: &serde_json::Value) -> i32 {
    let text = v["input"].as_str().unwrap_or("");
    let ci = v["config"].as_u64().unwrap_or(0) as usize;
    let must_reject = v["must_reject"].as_bool().unwrap_or(false);
    // the expansion runs on its own thread: not back within 60 s = does not terminate
    let (tx, rx) = std::sync::mpsc::channel();
    let t = text.to_string();
    std::thread::spawn(move || {
        let _ = tx.send(expand(&t, ci));
    });
    let (o, _) = match rx.recv_timeout(std::time::Duration::from_secs(60)) {
        Ok(r) => r,
        Err(_) => {
            println!("replay: the expansion did not terminate within 60 s");
            println!("replay: violation reproduced");
            std::process::exit(1);
        }
    };
    let bad = match &o {
        Outcome::Panic(_) | Outcome::InvalidOutput(_) => true,
        Outcome::Valid | Outcome::ConfigRejected(_) => must_reject,
        _ => false,
    };
    println!("replay: outcome {:?}", o);
    if bad {
        println!("replay: violation reproduced");
        1
    } else {
        0
    }
}
