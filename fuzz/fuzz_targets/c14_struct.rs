#![no_main]
//! Engine F, C14: coverage-guided structures; round-trip oracle inside the target.
use libfuzzer_sys::fuzz_target;
use std::sync::Once;

static INIT: Once = Once::new();

fuzz_target!(|data: &[u8]| {
    INIT.call_once(|| std::panic::set_hook(Box::new(|_| {})));
    if let Some(p) = jvl::fuzzdec::sprog_from_bytes(data) {
        if let Some(d) = jvl::fuzzdec::c14_verdict(&p) {
            eprintln!("C14 VIOLATION on input `{}`: {}", p.render(), d);
            std::process::abort();
        }
    }
});
