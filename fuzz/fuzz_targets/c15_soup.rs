#![no_main]
//! Engine F, C15: coverage-guided token soups; the oracle of the proptest check sits inside the target.
use libfuzzer_sys::fuzz_target;
use std::sync::Once;

static INIT: Once = Once::new();

fuzz_target!(|data: &[u8]| {
    // libfuzzer-sys aborts on any panic through its hook: expansions of malformed input may panic
    // by design of the check (they are caught and classified), so install a silent hook
    INIT.call_once(|| std::panic::set_hook(Box::new(|_| {})));
    let (text, ci) = jvl::fuzzdec::soup_from_bytes(data);
    if let Some(d) = jvl::fuzzdec::c15_verdict(&text, ci) {
        eprintln!("C15 VIOLATION on input `{}` (config {}): {}", text, ci, d);
        std::process::abort();
    }
});
