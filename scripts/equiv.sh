#!/bin/bash
# usage: scripts/equiv.sh <patch> — applies a semantics-preserving change to /repo, runs ALL quick checks, reverts; every check must stay silent
P="$1"; cd /verif
if ! git -C /repo diff --quiet; then echo "/repo dirty"; exit 3; fi
trap 'git -C /repo checkout -- .' EXIT
git -C /repo apply "$P" || exit 3
for id in C01 C02 C03 C04 C05 C06 C07 C08 C09 C10 C11 C12 C13 C14 C15 C16 C17 C18 C19 C20; do
  out=$(VERIF_SEED=5 ./run check $id --tier quick 2>&1); code=$?
  [ $code -ne 0 ] && echo "$(basename $P) $id exit=$code :: $(echo "$out" | grep -E 'VIOLATION|infrastructure|error' | head -3 | tr '\n' ' ' | cut -c1-300)"
done
echo "$(basename $P) finished"
find /verif/replays -type f -delete
