#!/bin/bash
# usage: scripts/allquick.sh <tier> <seed...>  — runs every check once per seed, prints one line per run
tier=$1; shift
cd "$(dirname "$0")/.."
./run setup >/dev/null 2>&1
for s in "$@"; do
  for id in C01 C02 C03 C04 C05 C06 C07 C08 C09 C10 C11 C12 C13 C14 C15 C16 C17 C18 C19 C20; do
    t0=$(date +%s)
    out=$(VERIF_SEED=$s ./run check $id --tier $tier 2>&1); code=$?
    t1=$(date +%s)
    echo "seed=$s $id tier=$tier exit=$code wall=$((t1-t0))s $(echo "$out" | grep -c VIOLATION) violations :: $(echo "$out" | grep -E 'VIOLATION|infrastructure' | head -2 | tr '\n' ' ')"
  done
done
