#!/bin/bash
# usage: scripts/matrixr.sh <seed output dir> <property or ""> <dirs...>  — runs confirmed, not yet saved seeded changes
# (validated by validate_seed.sh) against the quick check of their property (or of the property given)
O="$1"; P="$2"; shift 2
cd /verif
for d in "$@"; do
  prop=${P:-${d%-*}}
  grep -q '"confirmed": true' $O/$d/validation.json 2>/dev/null || { echo "$d not confirmed"; continue; }
  out=$(scripts/mut.sh $O/$d/rebased.diff $prop 2>&1 | tail -1)
  code=$(echo "$out" | sed -n 's/.*exit=\([0-9]*\).*/\1/p')
  echo "$d $prop exit=$code :: $(echo "$out" | cut -c1-300)"
done
find /verif/replays -type f -delete
