#!/usr/bin/env python3
"""Writes /verif/MANIFEST.json from the table below (single source of truth for the interface)."""
import json, os
ROOT = os.path.dirname(os.path.dirname(os.path.abspath(__file__)))
TRUST = ("Trusted base: rustc/cargo and the std, futures 0.3.26 and tokio 1.26 libraries; the harness callbacks, "
         "the reference model of documented step semantics (crates/jvrt/src/model.rs) and the oracles. Search, not proof: "
         "the claim is 'held on everything generated', with counts and class histograms in the evidence.")
CHECKS = {
 "C01": dict(level="exploration", engine="R", design="6/C01",
   technique="differential property-based testing: proptest-driven typed chain generator, each chain compiled twice in one binary (through the real proc-macro and as the documented method chain with the same operand text) and run on generated inputs; results, callback traces and event multisets compared",
   text="2 640 (quick) / 26 400 (thorough) typed chains over Option / Result / iterators / tuples / scalars, program i forced to contain operator spelling i mod 22 under macro name i mod 12, operands in six shapes, `~` at random positions, operator-bearing initial values; each runs on 48-128 inputs incl. None / Err / empty. A macro side that does not compile while the reference does is a violation; a reference side that does not compile is a generator bug (exit 2). One genuine defect found and fixed in two steps (an initial value with a top-level operator was not parenthesised; nor was one handed in as a macro_rules! expr fragment). Operand evaluations are part of the ordered trace; every fifth round of spellings hands the operands in as expr fragments. In the async macros half of the chains run over real (immediately ready) futures and streams, half are sync chains closed by `-> ready`."),
 "C02": dict(level="exploration", engine="R", design="6/C02",
   technique="differential property-based testing: typed chains with program i forced to contain wrapper operator (i/3) mod 10 in closing mode i mod 3, against the hand-nested method chain `.x(|v| v inner...) rest`",
   text="Inner chains are generated goal-directed for the closure type each of the ten wrapper operators needs, nesting depth <= 3, empty bodies, inner block captures, explicit `<<<`, implicit close at a step end and at the branch end, operators after `<<<`; all 12 macro names. Open known finding: in try-async macros an error-side wrapper at the start of a step >= 1 whose body begins with a member access does not compile (error type lost by the Ok re-wrap); that class is excluded by construction."),
 "C04": dict(level="exploration", engine="R", design="6/C04",
   technique="property-based testing: exhaustive depth-profile enumeration + proptest-generated grid programs, compiled against the real proc-macros, oracle = reference model of result positions",
   text="Every depth profile with n<=4 branches and d<=3 steps under all eight macro kinds is enumerated and random profiles up to n=12, d=6 are generated; the macro's value is compared position by position with the reference model, with type ascriptions forcing the bare value for one branch. Exploration is the right level: the space of profiles is unbounded but the index arithmetic is exercised completely on the small profiles."),
 "C05": dict(level="fault_enumeration", engine="R", design="6/C05",
   technique="property-based testing with exhaustive fault enumeration: generated try-macro programs x every subset of failing decision points, oracle = reference model",
   text="For each generated program under the six try macro names every subset of its decision points (initial values and Option/Result-returning callbacks) is made to fail (exhaustively up to the budget, sampled beyond) and the returned value, payload included, must equal the model's first failure (lowest-numbered failing branch of the earliest failing step; any failing branch of that step for async)."),
 "C06": dict(level="fault_enumeration", engine="R", design="6/C06",
   technique="property-based testing with exhaustive fault enumeration: event-log invariant (no later-step event, no handler call, failing step completed) over generated programs x failing subsets",
   text="Same fault enumeration as C05 on programs that also contain block captures, let-snapshots and handlers in later steps; the oracle is an invariant over the event log of the real expansion."),
 "C03": dict(level="exploration", engine="R", design="6/C03",
   technique="property-based testing over harness-owned schedules: gated callbacks (blocking gates for threads, gate futures under a deterministic executor for async), invariant checked by the controller at every rendezvous and over the event log",
   text="Generated programs with unequal depths run under generated schedules that the harness controls (release permutations of blocked branch threads; systematically enumerated and randomised wake-up orders of pending futures). The barrier invariant - nothing of step k+1 exists while a branch is still inside step k, the macro has not returned - is evaluated while the controller knows exactly who is blocked, so it cannot fire on a correct barrier whatever the timing. Interleavings inside the macro's own glue code are not controlled. Stage 2 (typed chains): 2-4 branches over all 22 operator spellings with `~` in front of half of the operators (operand-less ones and wrappers included) under the non-try macros; the documented chains are evaluated step by step across the branches with a mark between steps, and the macro's global event sequence must never go back to an earlier step."),
 "C07": dict(level="exploration", engine="R", design="6/C07",
   technique="metamorphic property-based testing: the same generated program rendered under the three macro names of its class, results / callback sequences / concurrency signatures compared with each other (no model)",
   text="Each generated program is compiled under plain, spawn and alias macro names and run under identical enumerated failure plans; the oracle is agreement among the three (results; per-branch callback sequences; thread-name signature; first-poll arrival count distinguishing spawned from inline futures), plus type ascription of the expected result type; a child-process run in which every callback uses 256 KiB of stack must complete under all three names or under none. Stage 2 (typed chains): values that are Send but not Sync under the eight spawning macros against a reference that requires Send + 'static only. A few wide programs (11-16 branches) per run; every sync program also runs once on a calling thread with a long non-ASCII name (outcome and callback set compared within the class)."),
 "C08": dict(level="exploration", engine="R", design="6/C08",
   technique="property-based testing over harness-owned thread schedules: rendezvous at blocking gates, thread identity and name recorded by every callback",
   text="All gated callbacks of a multi-branch step must arrive while every gate is held closed (a branch waiting for a sibling could not), on distinct non-caller threads with the documented names, also when a custom joiner passes the thread handles through; single-active steps run on the calling thread; the caller is observed not to continue before the last release. The only wall-clock element is the rendezvous deadline (10 s, confirmed once with 20 s) on the failing path. While a branch of a multi-branch step is still held at its gate no event of a later step may exist (the caller goes on only after every thread of the step has finished)."),
 "C09": dict(level="exploration", engine="R", design="6/C09",
   technique="property-based testing under a deterministic executor: manual polling with a flag waker inside a current_thread tokio runtime, gate futures opened in systematically enumerated and randomised orders with batches and spurious polls",
   text="Laziness (nothing logged before the first poll, nor when dropped unpolled), step-internal concurrency (every active branch reaches its first pending point; an opened branch reaches its next one while siblings are pending), wake-up propagation and completion with the model's value are checked for every generated wake-up order; a hang shows deterministically as 'all gates open, root pending, not notified'. The future is built in the context of a second, idle runtime and polled on another, and also built and dropped outside any runtime; a quarter of the task-spawning programs use a sequentially awaiting custom joiner (the tasks must run regardless). Multi-threaded tokio schedulers are not explored."),
 "C10": dict(level="exploration", engine="R", design="6/C10",
   technique="property-based testing: event multiset and per-branch callback order of generated programs vs the reference model, clone- and drop-counting tokens",
   text="Every evaluation of a user expression is an event; the multiset of events of a run must equal the model's (exactly once / exactly as often as the method calls it), clone counter 0, no live token after the result is dropped. Stage 2 (typed chains against the documented chain): iterator callbacks per element, fold / try_fold operands, parenthesised blocks (ordinary expressions, evaluated in place), clone- and drop-counted `Ck` values - equal event multisets, equal clone counts, nothing left alive. Stage 3 (library level, engine L): generated structures over all 23 operator spellings in which every user expression carries a unique marker; each marker must occur exactly once in the expansion."),
 "C11": dict(level="exploration", engine="R", design="6/C11",
   technique="property-based testing: ordering invariant over the event log of generated programs with block operands on every hoistable grid position",
   text="Capture phase of every executed step must be exactly the model's sequence (branch-then-position), after all earlier-step events and before all other events of its own step, also for captures inside nested wrappers, in thread/task-spawning macros and when the branches run through a custom joiner (lazy / handle-passing, a third of the sync programs). Stage 2 (typed chains): block operands on all 14 expression-operand operators incl. both operands of `^@` / `?^@`; per branch the captures must be evaluated once each in written order. Every fifth block operand of the grid programs is a labeled block whose value leaves through `break`."),
 "C12": dict(level="exploration", engine="R", design="6/C12",
   technique="property-based testing: snapshots of let-names taken inside generated block captures vs the reference model; result compared with the name-free model",
   text="Random subsets of branches are named, captures of later steps snapshot random names (also of finished branches); every snapshot must equal the named branch's latest step result and the macro's value must be what the model (which ignores names) predicts; `let mut` names are borrowed mutably and changed in place. Stage 2 (typed chains, metamorphic): 85 % of the branches carry a name on the macro side only - also in front of initial values that bind weaker than a method call, as raw identifiers, and handed in as `ident` metavariables by a `macro_rules!` wrapper around the invocation - and must equal the unnamed documented chain."),
 "C13": dict(level="exploration", engine="R", design="6/C13",
   technique="property-based testing with fault enumeration: handler-call events and results of generated (macro x handler kind x position) programs under enumerated failure plans",
   text="Legal handler kinds at every position among 1-5 branches under all 12 macro names, failure plans enumerated; handler called exactly once iff documented, with the values in branch order (argument hash), async handler futures run. The same command then runs the library-level half (engine L): every (configuration x handler kind x position) is enumerated - wrong kinds must be rejected, legal ones accepted - and every pair of handlers, plus generated structures with an inserted second handler, must be rejected by the parser. A library-level input on which the expansion does not terminate (30 s, confirmed with 60 s in a fresh process) is a violation."),
 "C18": dict(level="fault_enumeration", engine="R", design="6/C18",
   technique="fault injection enumerated over every evaluation event of generated programs: child processes with catch_unwind (sync / threads), deterministic executor with catch_unwind around each poll (async)",
   text="Every single event position of each generated program (initial value, operand, callback, capture, handler expression, handler call) is made to panic in turn, under the all-succeed plan and (except the async try macros) under a plan with one failing callback; the panic must be observed by the caller and no later-step event may exist. Thread-spawning macros: the later siblings of the panicking branch are parked until the caller is back - a caller still blocked after 3 s (confirmed with 12 s) is a violation. Async: once the panic has been raised the future must panic at its next poll without any further pending point being opened, and is never left pending with nothing outstanding."),
 "C14": dict(level="exploration", engine="L", design="6/C14",
   technique="property-based testing (proptest, in process over join_impl): structure round trip - a generated chain structure is rendered to text and the parser must recover exactly it; exhaustive table of adjacent operator pairs",
   text="All 23 operator spellings with every flag combination are enumerated pairwise (about 4 200 inputs) and 40 000 (quick) / 1 000 000 (thorough) random structures with adversarial operands (operator look-alikes inside groups, macros, literals, closure return types, turbofish, nested generics, if / match) are rendered and parsed back; proptest shrinks a failure to a minimal input; the thorough tier adds a coverage-guided libFuzzer stage (12 workers x 300 s) over a structure decoder. A last stage (engine R) compiles typed chains whose initial values and expression operands reach the real proc-macros as `expr` fragments of a `macro_rules!` wrapper - one token tree each, with operator look-alikes at their top level - and compares them with the documented chain. Two genuine defects remain open as known findings (bracket-leading operand after `=>`; `let` before a top-level && / || value), one was fixed (table priority)."),
 "C15": dict(level="exploration", engine="L", design="6/C15",
   technique="property-based testing / fuzzing in process (proptest): token soups over the DSL vocabulary, every listed structural fault applied to generated valid programs, token-level edits of valid programs; oracle = outcome class + syntactic validity of the output (syn)",
   text="Each input is lexed, parsed and expanded under catch_unwind with one of the 8 configurations; the outcome must be a valid expression, a syn error or one of the generator's two configuration messages, and fault inputs must be rejected. 420 000 inputs in the quick tier, a third of which reach the generator; the thorough tier adds a coverage-guided libFuzzer stage (12 workers x 300 s) over a token-soup decoder."),
 "C20": dict(level="exploration", engine="L", design="6/C20",
   technique="model-based property testing over histories (proptest): sequences of expansions over a pool of inputs x configurations, replayed sequentially and concurrently on fresh threads; model = first output per (input, config)",
   text="A history is a pool of generated inputs, a sequence of (input, configuration) expansions with repetition, and a thread count; every later or concurrent expansion must be byte-identical to the first. Hash-order or thread-local state would show because each history constructs fresh hash states and threads; every fourth history is also expanded in two fresh child processes in forward and reverse order (state left behind by the first expansion of a process). Wide inputs go up to 26 branches; every second history is re-expanded input by input on fresh threads."),
 "C19": dict(level="exploration", engine="R", design="6/C19",
   technique="property-based testing: counting global allocator around the macro expression of generated join! / try_join! programs (allocation claim); differential compile-and-run of typed chains over !Send / move-only values and caller-stack borrows (bounds claim)",
   text="Stage 1: generated sequential programs whose user code does not allocate (preallocated event log) are evaluated under enumerated failure plans; the evaluating thread's allocation counter must not move across the macro expression. Stage 2: typed chains under the four non-spawning macros with values that are neither Send nor Clone, move-only values, shared and mutable borrows of the caller's locals (also from handlers, whose futures hold the borrow in the async macros), up to 7 branches; the macro side must compile whenever the documented chain does and agree with it. 40 % of the sequential chain programs use `lazy_branches(true)` with a joiner that calls the branch closures; half of their top-level `??` inspectors hold an `Rc`; a fifth of all initial values are plain locals of the caller."),
 "C17": dict(level="exploration", engine="R", design="6/C17",
   technique="property-based testing: wide / long generated grid programs with captures on most positions against the reference model (index stage); typed chains with macro invocations nested in operands, captures and initial values to depth 3, compared with the documented chain (nesting stage)",
   text="Stage 1: programs with up to 24 branches x 24 actions per step and block captures on 70 % of the operand positions under the eight macro kinds - a clash between any two generated names makes a branch use another position's closure or value, which the model comparison shows. Stage 2: every nested invocation (12 macro names; inside operands, block captures, initial values and handlers; depth <= 3) is evaluated once inside an expansion and once in plain Rust and must agree; a quarter of the programs instead give the branches `let` names that are also locals of the caller and mention them in the handler, which must see the caller's locals."),
 "C16": dict(level="exploration", engine="R", design="6/C16",
   technique="property-based testing with logging harness joiners and a stand-in futures crate: generated programs x legal option prefixes through the real proc-macros, invariant over the joiner's own log plus the reference model; exhaustive enumeration of option orders / subsets / duplicates at library level",
   text="Stage 1 (runtime): generated programs with differing depths under the eight macro kinds carry option prefixes in rotated orders; eager, lazy (reverse-calling), handle-passing, async and self-transposing joiners log invocation count, arity and which branch each argument evaluates, and tag their outputs. Stage 2: `futures_crate_path(::jvrt::fx)` in a crate with no dependency called futures. Stage 3 (engine L): all 65 ordered option subsets x values x gluing first branches parse to the written fields, every single duplicate is rejected. One defect fixed (duplicate accepted after four passes), one open known finding (sync try + transpose_results(false) + unequal depths does not compile; probed on every run). Programs under the thread-spawning macros with an explicit `lazy_branches(false)` end every step in `-> defer` (the branch expression itself is the closure the thread runs). A library-level input on which the expansion does not terminate (30 s, confirmed with 60 s in a fresh process) is a violation: the option prefix is neither accepted nor rejected."),
}
NOT_YET = "check not built yet in this session; to be decided by generated-input search as described in DESIGN.md"
def main():
    props = [json.loads(l) for l in open(os.path.join(ROOT, "properties.jsonl"))]
    checks, na = [], []
    for p in props:
        i = p["id"]
        if i in CHECKS:
            c = CHECKS[i]
            checks.append({
                "property_id": i,
                "quick_cmd": f"./run check {i} --tier quick",
                "thorough_cmd": f"./run check {i} --tier thorough",
                "evidence_file": f"/verif/evidence/{i}.json",
                "replay_cmd_template": "./run replay {path}",
                "engine": c["engine"],
                "level_claimed": {"category": c["level"], "text": c["text"], "design_ref": "DESIGN.md section " + c["design"]},
                "level_note": c.get("note", TRUST),
                "technique": c["technique"],
            })
        else:
            na.append({"property_id": i, "reason": NOT_YET})
    m = {
        "version": 1,
        "setup_cmd": "./run setup",
        "hooks": {
            "guard": "olegnn_join_verif",
            "enable": "no hooks are needed: join_impl already exposes the parser and generator, everything else is observed through user-supplied callbacks of generated programs; the guard name is reserved and unused",
            "baseline_off_cmd": "cd /repo && cargo nextest run --workspace --no-fail-fast --offline",
            "source_commits": [],
            "add_only": True,
        },
        "engines": [
            {"name": "R", "path": "crates/jv + crates/jvrt", "serves_properties": [k for k, v in CHECKS.items() if v["engine"] == "R"],
             "kind_free_text": "compile-and-run: proptest-generated programs invoking the real proc-macros from /repo/join are compiled in batches of 16 binaries and run under enumerated inputs / fault plans / schedules against a reference model"},
            {"name": "L", "path": "crates/jvl", "serves_properties": [k for k, v in CHECKS.items() if v["engine"] == "L"],
             "kind_free_text": "in-process proptest over join_impl (parser + generator linked by path from /repo)"},
            {"name": "F", "path": "fuzz", "serves_properties": ["C14", "C15"],
             "kind_free_text": "cargo-fuzz / libFuzzer targets (thorough tier only): coverage-guided byte strings decoded into chain structures / DSL token soups, same oracles inside the target"},
        ],
        "checks": checks,
        "not_applicable": na,
        "notes": "All checks read VERIF_SEED / VERIF_TIER (or --seed / --tier). Exit 0 held, 1 VIOLATION line printed, 2 infrastructure or inconclusive. Fix commits in /repo: ffea8f9 (C05), c046cce (C15), 3010633 (C14), 078aaab and e951224 (C01), 8ddb025 (C16); open findings and fixed entries in known_findings.json.",
    }
    json.dump(m, open(os.path.join(ROOT, "MANIFEST.json"), "w"), indent=1)
    print("MANIFEST.json:", len(checks), "checks,", len(na), "not applicable")
main()
