#!/usr/bin/env python3
"""Writes /verif/MANIFEST.json from the table below (single source of truth for the interface)."""
import json, os
ROOT = os.path.dirname(os.path.dirname(os.path.abspath(__file__)))
TRUST = ("Trusted base: rustc/cargo and the std, futures 0.3.26 and tokio 1.26 libraries; the harness callbacks, "
         "the reference model of documented step semantics (crates/jvrt/src/model.rs) and the oracles. Search, not proof: "
         "the claim is 'held on everything generated', with counts and class histograms in the evidence.")
CHECKS = {
 "C04": dict(level="exploration", engine="R", design="6/C04",
   technique="property-based testing: exhaustive depth-profile enumeration + proptest-generated grid programs, compiled against the real proc-macros, oracle = reference model of result positions",
   text="Every depth profile with n<=4 branches and d<=3 steps under all eight macro kinds is enumerated and random profiles up to n=12, d=6 are generated; the macro's value is compared position by position with the reference model, with type ascriptions forcing the bare value for one branch. Exploration is the right level: the space of profiles is unbounded but the index arithmetic is exercised completely on the small profiles."),
 "C05": dict(level="fault_enumeration", engine="R", design="6/C05",
   technique="property-based testing with exhaustive fault enumeration: generated try-macro programs x every subset of failing decision points, oracle = reference model",
   text="For each generated program under the six try macro names every subset of its decision points (initial values and Option/Result-returning callbacks) is made to fail (exhaustively up to the budget, sampled beyond) and the returned value, payload included, must equal the model's first failure (lowest-numbered failing branch of the earliest failing step; any failing branch of that step for async)."),
 "C06": dict(level="fault_enumeration", engine="R", design="6/C06",
   technique="property-based testing with exhaustive fault enumeration: event-log invariant (no later-step event, no handler call, failing step completed) over generated programs x failing subsets",
   text="Same fault enumeration as C05 on programs that also contain block captures, let-snapshots and handlers in later steps; the oracle is an invariant over the event log of the real expansion."),
}
NOT_YET = "check not built yet in this session; to be decided by generated-input search as described in DESIGN.md"
def main():
    props = [json.loads(l) for l in open(os.path.join(ROOT, "properties.jsonl"))]
    checks, na = [], []
    for p in props:
        i = p["id"]
        if i in CHECKS:
            c = CHECKS[i]
            checks.append({
                "property_id": i,
                "quick_cmd": f"./run check {i} --tier quick",
                "thorough_cmd": f"./run check {i} --tier thorough",
                "evidence_file": f"/verif/evidence/{i}.json",
                "replay_cmd_template": "./run replay {path}",
                "engine": c["engine"],
                "level_claimed": {"category": c["level"], "text": c["text"], "design_ref": "DESIGN.md section " + c["design"]},
                "level_note": c.get("note", TRUST),
                "technique": c["technique"],
            })
        else:
            na.append({"property_id": i, "reason": NOT_YET})
    m = {
        "version": 1,
        "setup_cmd": "./run setup",
        "hooks": {
            "guard": "olegnn_join_verif",
            "enable": "no hooks are needed: join_impl already exposes the parser and generator, everything else is observed through user-supplied callbacks of generated programs; the guard name is reserved and unused",
            "baseline_off_cmd": "cd /repo && cargo nextest run --workspace --no-fail-fast --offline",
            "source_commits": [],
            "add_only": True,
        },
        "engines": [
            {"name": "R", "path": "crates/jv + crates/jvrt", "serves_properties": [k for k, v in CHECKS.items() if v["engine"] == "R"],
             "kind_free_text": "compile-and-run: proptest-generated programs invoking the real proc-macros from /repo/join are compiled in batches of 16 binaries and run under enumerated inputs / fault plans / schedules against a reference model"},
            {"name": "L", "path": "crates/jvl", "serves_properties": [k for k, v in CHECKS.items() if v["engine"] == "L"],
             "kind_free_text": "in-process proptest over join_impl (parser + generator linked by path from /repo)"},
        ],
        "checks": checks,
        "not_applicable": na,
        "notes": "All checks read VERIF_SEED / VERIF_TIER (or --seed / --tier). Exit 0 held, 1 VIOLATION line printed, 2 infrastructure or inconclusive. Fix commits in /repo: ffea8f9 (C05, D1), c046cce (C15, D2); see known_findings.json.",
    }
    json.dump(m, open(os.path.join(ROOT, "MANIFEST.json"), "w"), indent=1)
    print("MANIFEST.json:", len(checks), "checks,", len(na), "not applicable")
main()
