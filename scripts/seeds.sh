#!/bin/bash
# usage: scripts/seeds.sh <tier> "<ids>" <seed...>
tier=$1; ids=$2; shift 2
cd "$(dirname "$0")/.."
./run setup >/dev/null 2>&1
for s in "$@"; do for id in $ids; do
  t0=$(date +%s); out=$(VERIF_SEED=$s ./run check $id --tier $tier 2>&1); code=$?; t1=$(date +%s)
  echo "seed=$s $id tier=$tier exit=$code wall=$((t1-t0))s :: $(echo "$out" | grep -E 'VIOLATION|infrastructure' | head -2 | tr '\n' ' ')"
  if [ $code -ne 0 ]; then for f in replays/*.json; do echo "--- $f"; head -c 1500 $f; echo; done; fi
done; done
