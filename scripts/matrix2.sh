#!/bin/bash
# round 2: usage scripts/matrix2.sh <dirs under /tmp/seedout2 ...>
cd /verif
for d in "$@"; do
  prop=${d%-*}
  grep -q '"confirmed": true' /tmp/seedout2/$d/validation.json 2>/dev/null || { echo "$d not confirmed"; continue; }
  out=$(scripts/mut.sh /tmp/seedout2/$d/rebased.diff $prop 2>&1 | tail -1)
  code=$(echo "$out" | sed -n 's/.*exit=\([0-9]*\).*/\1/p')
  echo "$d $prop exit=$code"
done
find /verif/replays -type f -delete
