#!/usr/bin/env python3
"""usage: save_seed.py <agent output dir> <seed dir name> <new id> <property> <round> <quick-check exit code>
Copies a confirmed seeded change (validated by validate_seed.sh) to seeded/<new id>/ with a normalised meta.json."""
import json, os, shutil, sys
out, d, new, prop, rnd, code = sys.argv[1:7]
src = os.path.join(out, d)
val = json.load(open(os.path.join(src, 'validation.json')))
assert val.get('confirmed'), 'not confirmed'
m = json.load(open(os.path.join(src, 'meta.json')))
dst = os.path.join('/verif/seeded', new)
os.makedirs(dst, exist_ok=True)
shutil.copy(os.path.join(src, 'rebased.diff'), os.path.join(dst, 'patch.diff'))
shutil.copy(os.path.join(src, 'demo.rs'), os.path.join(dst, 'demo.rs'))
demo_path = m.get('demo_path_in_repo', 'join/tests/seeded_demo.rs')
meta = {
    "property": prop,
    "written_against": m.get('property'),
    "round": int(rnd),
    "breaks": m.get('summary') or m.get('breaks'),
    "needs_to_manifest": m.get('needs') or m.get('needs_to_manifest'),
    "demo_path_in_repo": demo_path,
    "demo_cmd": m.get('demo_cmd'),
    "author": "independent sub-agent (round %s) given only the property text, a scratch worktree of the tree with the fix commits, and the earlier mechanisms for that property to avoid" % rnd,
    "confirmed_by_me": {
        "how": "scripts/validate_seed.sh in a scratch worktree of /repo at e951224: patch applied, unedited suite run with cargo nextest, demo run with and without the change",
        "suite": val.get('suite'),
        "demo_exit_with_change": val.get('demo_exit_with_change'),
        "demo_exit_without_change": val.get('demo_exit_without_change'),
    },
    "agent_claim": m.get('verified'),
    "check_result": {"command": "./run check %s --tier quick (VERIF_SEED=1) with the change applied to /repo" % prop, "exit": int(code), "detected": int(code) == 1},
}
json.dump(meta, open(os.path.join(dst, 'meta.json'), 'w'), indent=1)
print('saved', dst)
