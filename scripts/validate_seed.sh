#!/bin/bash
# usage: validate_seed.sh <seed dir> <worktree>  — confirms a seeded change: applies (rebasing if needed), unedited suite 80/80,
# demo fails with the change and passes without. Writes <seed dir>/validation.json and <seed dir>/rebased.diff.
D="$1"; W="$2"
export CARGO_NET_OFFLINE=true CARGO_TARGET_DIR="$W/target"
cd "$W" || exit 3
git checkout -q -- . ; rm -f join/tests/seeded_demo.rs join_impl/tests/seeded_demo.rs
applied=no
if git apply "$D/patch.diff" 2>/dev/null; then applied=plain
elif git apply --3way "$D/patch.diff" 2>/dev/null; then applied=3way; git reset -q
elif git apply -C1 "$D/patch.diff" 2>/dev/null; then applied=C1
fi
if [ "$applied" = no ]; then echo "{\"applied\": \"no\"}" > "$D/validation.json"; exit 1; fi
git diff > "$D/rebased.diff"
suite=$(cargo nextest run --workspace --no-fail-fast --offline 2>&1 | grep -E 'tests run:' | tail -1)
demo_path=$(python3 -c "import json;print(json.load(open('$D/meta.json')).get('demo_path_in_repo','join/tests/seeded_demo.rs'))")
pkg=join; case "$demo_path" in join_impl/*) pkg=join_impl;; esac
mkdir -p "$(dirname "$demo_path")"; cp "$D/demo.rs" "$demo_path"
timeout 600 cargo test --offline -p $pkg --test seeded_demo >/tmp/seed_with.log 2>&1; with=$?
git apply -R "$D/rebased.diff"
timeout 600 cargo test --offline -p $pkg --test seeded_demo >/tmp/seed_without.log 2>&1; without=$?
rm -f "$demo_path"; git checkout -q -- .
python3 - <<PY
import json
json.dump({"applied":"$applied","suite":"""$suite""".strip(),"demo_exit_with_change":$with,"demo_exit_without_change":$without,
 "confirmed": ("80 passed" in """$suite""") and $with!=0 and $without==0}, open("$D/validation.json","w"), indent=1)
PY
cat "$D/validation.json" | tr -d '\n'; echo
