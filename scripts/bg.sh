#!/bin/bash
# For `vp run --with-repo -- scripts/bg.sh <command...>`: points both engines at the snapshot of /repo ($VP_RUN_REPO),
# so that the background run is not disturbed by seeded changes applied to /repo meanwhile. Never used by a registered command.
cd "$(dirname "$0")/.."
if [ -n "$VP_RUN_REPO" ]; then
  sed -i "s#\"/repo/join_impl\"#\"$VP_RUN_REPO/join_impl\"#" crates/jvl/Cargo.toml
  export VERIF_REPO="$VP_RUN_REPO"
fi
exec "$@"
