#!/bin/bash
# usage: scripts/mut.sh <patch.diff> <Cxx> [<Cxx>...]   — applies a seeded change to /repo, runs the quick checks, reverts.
# (-R as first arg: apply the patch in reverse, e.g. to un-fix a fix commit)
REV=""
if [ "$1" = "-R" ]; then REV="-R"; shift; fi
P="$1"; shift
cd /verif
if ! git -C /repo diff --quiet; then echo "/repo is dirty, refusing"; exit 3; fi
# (the checks rewrite evidence/<id>.json on every run: keep the files that describe the unchanged tree)
EB=$(mktemp -d); cp -r /verif/evidence "$EB/evidence"
trap 'git -C /repo checkout -- . ; git -C /repo clean -fdq join join_impl; cp "$EB"/evidence/*.json /verif/evidence/ 2>/dev/null; find "$EB" -depth -delete' EXIT
git -C /repo apply $REV "$P" || { echo "patch does not apply"; exit 3; }
for id in "$@"; do
  out=$(VERIF_SEED=${VERIF_SEED:-1} ./run check $id --tier ${TIER:-quick} 2>&1); code=$?
  echo "== $(basename $(dirname $P))/$(basename $P) vs $id: exit=$code :: $(echo "$out" | grep -E 'VIOLATION|KNOWN' | head -2 | tr '\n' ' ') $(echo "$out" | tail -1)"
done
