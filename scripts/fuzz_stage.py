#!/usr/bin/env python3
"""Engine F stage of the thorough tier of C14 / C15: builds the libFuzzer target against /repo's current tree
(path dependency), runs it for a wall-clock budget on several workers, reports a crash artifact as a
violation and merges the execution counts into the evidence file. A budget that runs out is not a verdict."""
import glob, json, os, re, subprocess, sys, time
ROOT = os.path.dirname(os.path.dirname(os.path.abspath(__file__)))
prop = sys.argv[1]
seconds = int(sys.argv[2]) if len(sys.argv) > 2 else 300
jobs = int(sys.argv[3]) if len(sys.argv) > 3 else 12
seed = int(os.environ.get("VERIF_SEED", "1")) or 1
target = {"C14": "c14_struct", "C15": "c15_soup"}[prop]
fz = os.path.join(ROOT, "fuzz")
env = dict(os.environ, CARGO_NET_OFFLINE="true")
t0 = time.time()
b = subprocess.run(["cargo", "+nightly", "fuzz", "build", "--fuzz-dir", ".", "-s", "none", target], cwd=fz, env=env, capture_output=True, text=True)
if b.returncode != 0:
    print("infrastructure: building the fuzz target failed:\n" + b.stderr[-2000:], file=sys.stderr)
    sys.exit(2)
art = os.path.join(fz, "artifacts", target)
corpus = os.path.join(fz, "corpus", target)
os.makedirs(art, exist_ok=True); os.makedirs(corpus, exist_ok=True)
for f in glob.glob(os.path.join(art, "*")): os.remove(f)
for f in glob.glob(os.path.join(fz, "fuzz-*.log")): os.remove(f)
r = subprocess.run(["cargo", "+nightly", "fuzz", "run", "--fuzz-dir", ".", "-s", "none", target, "--",
                    f"-max_total_time={seconds}", f"-seed={seed}", "-len_control=0", "-max_len=200", f"-jobs={jobs}", f"-workers={jobs}", "-print_final_stats=1"],
                   cwd=fz, env=env, capture_output=True, text=True)
execs = 0
for f in glob.glob(os.path.join(fz, "fuzz-*.log")):
    txt = open(f, errors="replace").read()
    m = re.findall(r"stat::number_of_executed_units:\s*(\d+)", txt) or re.findall(r"Done (\d+) runs", txt)
    if m: execs += int(m[-1])
crashes = sorted(glob.glob(os.path.join(art, "crash-*")))
corpus_n = len(os.listdir(corpus))
ev_path = os.path.join(ROOT, "evidence", f"{prop}.json")
try:
    ev = json.load(open(ev_path))
    ev["coverage"]["libfuzzer"] = {"target": target, "executions": execs, "seconds": seconds, "workers": jobs, "corpus_files": corpus_n,
                                   "crash_artifacts": len(crashes), "note": "coverage-guided; byte decoder makes every input a DSL token soup / chain structure; same oracle as the proptest stage inside the target; wall-clock budget"}
    ev["coverage"]["evaluations"] = ev["coverage"].get("evaluations", 0) + execs
    ev["violations"] = ev.get("violations", 0) + len(crashes)
    ev["wall_s"] = ev.get("wall_s", 0) + round(time.time() - t0, 1)
    json.dump(ev, open(ev_path, "w"), indent=2)
except Exception as e:
    print("could not merge into the evidence file:", e, file=sys.stderr)
print(f"{prop} thorough (libFuzzer {target}): executions={execs} corpus={corpus_n} crashes={len(crashes)} wall={time.time()-t0:.0f}s")
if crashes:
    # keep the artifact where replay finds it
    keep = os.path.join(ROOT, "replays", f"{prop}-fuzz-{os.path.basename(crashes[0])}")
    os.makedirs(os.path.dirname(keep), exist_ok=True)
    open(keep, "wb").write(open(crashes[0], "rb").read())
    print(f"VIOLATION property={prop} replay={keep}")
    sys.exit(1)
if execs == 0:
    print("infrastructure: the fuzzer executed nothing:\n" + r.stderr[-1500:], file=sys.stderr)
    sys.exit(2)
sys.exit(0)
