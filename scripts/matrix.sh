#!/bin/bash
# Runs every confirmed seeded change against the quick check of the property it breaks (and records the verdict
# in seeded/<id>/meta.json). usage: scripts/matrix.sh [ids...]
cd /verif
ids="$@"; [ -z "$ids" ] && ids=$(ls seeded)
for d in $ids; do
  prop=${d%-*}
  out=$(scripts/mut.sh /verif/seeded/$d/patch.diff $prop 2>&1 | tail -1)
  code=$(echo "$out" | sed -n 's/.*exit=\([0-9]*\).*/\1/p')
  echo "$d $prop exit=$code"
  python3 - <<PY
import json
p='/verif/seeded/$d/meta.json'
m=json.load(open(p))
m['check_result']={"command":"./run check $prop --tier quick (VERIF_SEED=1) with the change applied to /repo","exit":int("$code" or -1),"detected":"$code"=="1"}
json.dump(m,open(p,'w'),indent=1)
PY
done
find /verif/replays -name '*.json' -delete
