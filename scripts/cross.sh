#!/bin/bash
# Precision sweep: every seeded change against every engine-R check, in parallel on scratch copies of /repo
# (engine R honours VERIF_REPO; engine-L-only checks C14 C15 C20 are left out). Output: /tmp/cross/result.tsv
# usage: scripts/cross.sh <workers> [seed ids...]
W=${1:-8}; shift
ids="$@"; [ -z "$ids" ] && ids=$(ls /verif/seeded)
mkdir -p /tmp/cross; rm -f /tmp/cross/result.tsv
# frozen copies of the engine and the runtime sources, so that development can go on meanwhile
rm -rf /tmp/cross/crates; cp -r /verif/crates /tmp/cross/crates; cp /verif/target/release/jv /tmp/cross/jv; cp /verif/known_findings.json /tmp/cross/known_findings.json
i=0
for k in $(seq 1 $W); do
  r=/tmp/cross/root$k
  if [ ! -d $r ]; then
    mkdir -p $r/evidence $r/replays $r/work
    ln -s /tmp/cross/crates $r/crates; ln -s /tmp/cross/known_findings.json $r/known_findings.json
    mkdir -p $r/templates
    git -C /repo worktree add --detach /tmp/cross/repo$k HEAD >/dev/null 2>&1
  fi
done
echo $ids | tr ' ' '\n' > /tmp/cross/queue
worker() {
  k=$1; r=/tmp/cross/root$k; rp=/tmp/cross/repo$k
  while true; do
    d=$(flock /tmp/cross/lock sh -c 'head -1 /tmp/cross/queue; sed -i 1d /tmp/cross/queue')
    [ -z "$d" ] && break
    git -C $rp checkout -q -- . ; git -C $rp clean -fdq join join_impl
    git -C $rp apply /verif/seeded/$d/patch.diff 2>/dev/null || git -C $rp apply -C1 /verif/seeded/$d/patch.diff 2>/dev/null || { echo -e "$d\tNOAPPLY" >> /tmp/cross/result.tsv; continue; }
    line="$d"
    for id in C01 C02 C03 C04 C05 C06 C07 C08 C09 C10 C11 C12 C13 C16 C17 C18 C19; do
      stages="$id"
      case $id in C07|C10|C11|C12|C17|C19) stages="$id ${id}chain";; C16) stages="C16 C16fx";; esac
      worst=0
      for st in $stages; do
        VERIF_ROOT=$r VERIF_REPO=$rp VERIF_SEED=1 /tmp/cross/jv check $st --tier quick >/dev/null 2>&1; c=$?
        if [ $c -eq 1 ]; then worst=1; elif [ $c -ne 0 ] && [ $worst -eq 0 ]; then worst=$c; fi
      done
      line="$line\t$id=$worst"
    done
    echo -e "$line" >> /tmp/cross/result.tsv
    git -C $rp checkout -q -- .
  done
}
for k in $(seq 1 $W); do worker $k & done
wait
echo done
